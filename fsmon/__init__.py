"""fsmon - runtime monitors for FactorySimPy (see /verif/DESIGN.md)."""
import os
import sys

REPO = os.environ.get("VERIF_REPO", "/repo")
SRC = os.path.join(REPO, "src")


def use_repo():
    """Put the tree under test first on sys.path (the repo is also installed editable,
    but VERIF_REPO may point to a scratch copy during the mutation audit)."""
    if sys.path[0] != SRC:
        try:
            sys.path.remove(SRC)
        except ValueError:
            pass
        sys.path.insert(0, SRC)
    # drop modules imported from another tree
    for name in [m for m in sys.modules if m == "factorysimpy" or m.startswith("factorysimpy.")]:
        mod = sys.modules[name]
        f = getattr(mod, "__file__", None) or ""
        if f and not f.startswith(SRC):
            del sys.modules[name]
