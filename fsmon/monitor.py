"""Monitor: per-environment hub.  Owns the ShadowStores, receives kernel and API-boundary
callbacks, collects violations / counters / an event log tail for witnesses."""
from collections import Counter, deque

from .kernel import MonEnv
from .shadow import ShadowStore, _kind_of


class ReserveCtx:
    __slots__ = ("sh", "side", "prio", "filt", "rec", "op")

    def __init__(self, sh, op, side, prio, filt):
        self.sh = sh
        self.op = op
        self.side = side
        self.prio = prio
        self.filt = filt
        self.rec = None


class Monitor:
    def __init__(self, env, log_tail=60):
        assert isinstance(env, MonEnv)
        self.env = env
        env._mon = self
        env._mon_ctx = None
        self.shadows = {}
        self.shadow_list = []
        self.dirty = set()
        self.transit = set()
        self.gseq = 0
        self.tick = 0              # total order of monitor observations (grants, settles)
        self.counters = Counter()
        self.violations = []
        self.viol_count = Counter()
        self.log = deque(maxlen=log_tail)
        self.step_hooks = []
        self.eoi_hooks = []
        self.slice_end_hooks = []
        self.slice_begin_hooks = []
        self.lost_wakeup_hooks = []  # f(sh, tokrec, why) when the C04 oracle fires
        self.proc_hooks = []       # f(proc) when a process is created
        self.can_hooks = []        # f(edge, op, result, exc) after edge.can_put()/can_get()
        self.call_hooks = []       # f(sh, info, result, exc) after every store API call
        self.precall_hooks = []    # f(sh, op, args) before every store API call
        self.instant_sig = {}      # sh -> list of (op, role) in the current instant
        self.sigs = set()
        self.cur_instant = None
        self.labels = {}
        self.max_viol_details = 12
        self.suppress = False      # set while the harness itself calls into the library

    # ------------------------------------------------------------------ shadows
    def shadow(self, store):
        sh = self.shadows.get(id(store))
        if sh is None:
            sh = ShadowStore(self, store, self.labels.get(id(store)))
            self.shadows[id(store)] = sh
            self.shadow_list.append(sh)
        return sh

    def label(self, store, name, edge=None):
        self.labels[id(store)] = name
        sh = self.shadow(store)
        sh.label = name
        sh.edge = edge
        return sh

    # ------------------------------------------------------------------ violations
    def violation(self, prop, check, mech, detail, store=None):
        if getattr(self, "blind", None):
            # a store of this environment no longer exposes the state the reference models are synchronised with
            # (e.g. `ready_items` renamed): nothing observed here can be judged; the run is reported INCONCLUSIVE
            self.counters["verdicts_withheld_store_internals_unreadable"] += 1
            return
        key = (prop, check, mech)
        self.viol_count[key] += 1
        if self.viol_count[key] <= 2 and len(self.violations) < self.max_viol_details:
            self.violations.append({
                "property": prop, "check": check, "mechanism": mech, "t": self.env.now,
                "store": store.label if store is not None else None,
                "detail": _plain(detail), "log_tail": list(self.log)[-25:],
            })

    def record(self, *ev):
        self.log.append(_plain((round(self.env.now, 9),) + ev))

    # ------------------------------------------------------------------ kernel callbacks
    def on_succeed(self, ev):
        rec = getattr(ev, "_m", None)
        if rec is not None:
            rec.sh.on_grant(rec)

    def on_slice_begin(self, proc):
        for h in self.slice_begin_hooks:
            h(proc)

    def on_slice_end(self, proc):
        for h in self.slice_end_hooks:
            h(proc)

    def on_step(self):
        if self.transit or self.dirty:
            for sh in list(self.transit | self.dirty):
                sh.settle()
            self.dirty.clear()
        for h in self.step_hooks:
            h()

    def on_eoi(self, now):
        for sh in self.shadow_list:
            if sh.pend["put"] or sh.pend["get"] or sh.suspects or sh.unready > 0:
                sh.eoi(now)
        for h in self.eoi_hooks:
            h(now)
        if self.instant_sig:
            for sh, sig in self.instant_sig.items():
                if len(sig) >= 2:
                    self.counters["instants_with_2plus_calls_on_a_store"] += 1
                    self.sigs.add((sh.kind, tuple(sig)))
            self.instant_sig = {}

    def note_call(self, sh, op):
        ap = self.env.active_process
        role = getattr(ap, "mon_name", None) if ap is not None else None
        self.instant_sig.setdefault(sh, []).append((op, role))

    # ------------------------------------------------------------------ reserve bracket
    def begin_reserve(self, sh, op, side, prio, filt):
        ctx = ReserveCtx(sh, op, side, prio, filt)
        self.env._mon_ctx = ctx
        sh.cur_call = (op, None)
        return ctx

    def capture(self, ctx, ev):
        # first event created inside reserve_*: the token
        self.env._mon_ctx = None
        ctx.rec = ctx.sh.issue(ev, ctx.side, ctx.prio, ctx.filt)
        ctx.sh.cur_call = (ctx.op, ctx.rec)

    def end_reserve(self, ctx, tok, exc):
        self.env._mon_ctx = None
        sh = ctx.sh
        if exc is None and tok is not None:
            rec = getattr(tok, "_m", None)
            if rec is None:
                # the store did not create its token with env.event(): register it now
                rec = sh.issue(tok, ctx.side, ctx.prio, ctx.filt)
                ctx.rec = rec
                sh.late_mode = True
                if ctx.filt is None and ctx.side == "get" and sh.kind == "filter":
                    rec.filter = getattr(tok, "filter", None)     # the store's default filter travels on the token
                if tok.triggered:
                    sh.on_grant(rec)
                self.counters["late_token_registration"] += 1
            elif ctx.rec is not None and rec is not ctx.rec:
                self.counters["token_capture_mismatch"] += 1
        info = {"op": ctx.op, "cls": "ok", "rec": None}
        sh.after(info, tok, exc)
        return tok


def _plain(x):
    if isinstance(x, dict):
        return {str(k): _plain(v) for k, v in x.items()}
    if isinstance(x, (list, tuple, set)):
        return [_plain(v) for v in x]
    if isinstance(x, (int, float, str, bool)) or x is None:
        return x
    return repr(x)
