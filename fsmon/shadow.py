"""ShadowStore: reference model of one reservable store, fed only by API-boundary events
(call / return / raise of the six protocol operations, plus the exact instant at which a
token is triggered).  It decides, online,

  C01 capacity / put-must-succeed          C02 identity conservation / get-must-succeed
  C04 no lost wake-up (at end of instant)  C05 service order of requests
  C06 FIFO / LIFO / filter discipline      C07 protocol enforcement
  C11 buffer delay exactness (retrievability side)   C18 time-averaged level of bare stores

The implementation's own lists are never used to *drive* the model; they are compared
against it (and used, where the property anchors name them, to read the binding of a granted
retrieval).  Every use of hooked state degrades to a counted skip if the attribute vanishes.
"""
from collections import Counter

TOL = 1e-6
PERSIST = 1e-6


def _kind_of(store):
    for cls in type(store).__mro__:
        mod = getattr(cls, "__module__", "")
        name = cls.__name__
        if mod.endswith("reservable_priority_req_filter_store"):
            return "filter"
        if mod.endswith("reservable_priority_req_store"):
            return "rprs"
        if mod.endswith("reservable_req_store"):
            return "rrs"
        if mod.endswith("buffer_store"):
            return "buffer"
        if mod.endswith("fleet_store"):
            return "fleet"
        if mod.endswith("slotted_belt_store"):
            return "slotbelt"
        if mod.endswith("belt_store") and name == "BeltStore":
            return "belt"
    return None


HAS_PRIO = {"rprs", "filter", "fleet", "slotbelt"}
DELAYED = {"buffer", "fleet", "slotbelt", "belt"}
BELTS = {"slotbelt", "belt"}


def unwrap(x):
    return x[0] if isinstance(x, tuple) and len(x) >= 1 else x


class ItemRec:
    __slots__ = ("item", "iid", "put_t", "put_seq", "delay", "ready_t", "ready_key", "status",
                 "token", "ever_reserved", "putter", "first_ready_eoi", "tok_grant_t", "in_stall", "tok_grant_step")

    def __init__(self, item, put_t, put_seq, delay, putter):
        self.item = item
        self.iid = getattr(item, "id", None)
        self.put_t = put_t
        self.put_seq = put_seq
        self.delay = delay
        self.ready_t = None
        self.ready_key = None
        self.status = "never"      # never | reserved | released
        self.token = None
        self.ever_reserved = False
        self.putter = putter
        self.first_ready_eoi = None
        self.tok_grant_t = None
        self.tok_grant_step = None
        self.in_stall = False


class TokRec:
    __slots__ = ("tok", "sh", "side", "prio", "seq", "owner", "state", "t_issue", "t_grant",
                 "gseq", "filter", "bound", "via", "checked", "issue_step", "client", "g_step", "leaked")

    def __init__(self, tok, sh, side, prio, seq, owner, t, filt, step):
        self.tok = tok
        self.sh = sh
        self.side = side           # 'put' | 'get'
        self.prio = prio
        self.seq = seq
        self.owner = owner
        self.state = "pending"     # pending | granted | used | cancelled
        self.t_issue = t
        self.t_grant = None
        self.gseq = None
        self.filter = filt
        self.bound = None          # ItemRec bound to a granted get token
        self.via = None            # wake-up path that granted it
        self.checked = False
        self.issue_step = step
        self.client = None
        self.g_step = None
        self.leaked = False        # created inside a can_put / can_get query and left behind: nobody holds this token

    def key(self):
        if self.sh.has_prio:
            return (self.prio, self.seq)
        return (0, self.seq)


class ShadowStore:
    def __init__(self, mon, store, label=None):
        self.mon = mon
        self.store = store
        self.kind = _kind_of(store)
        self.label = label or f"{self.kind}#{len(mon.shadows)}"
        self.has_prio = self.kind in HAS_PRIO
        self.delayed = self.kind in DELAYED
        self.is_belt = self.kind in BELTS
        self.mode = getattr(store, "mode", "FIFO") if self.kind in ("buffer",) else "FIFO"
        self.cap = store.capacity
        self.edge = None
        self.held = {}             # id(item) -> ItemRec
        self.returned = set()      # id(item) of items already handed out (kept alive in log)
        self.keepalive = []
        self.mech_suffix = ""      # input class tag appended to every mechanism of this store (e.g. ":value-equal-items")
        self.forget_items = False  # E1 forgetful histories: an item that has left the store is not kept alive by the monitor, so its
                                   # address can be handed to a later item (bookkeeping keyed by id(item) must be cleaned on every path)
        self.freed_item_addrs = set()
        self.pend = {"put": [], "get": []}
        self.grant = {"put": [], "get": []}
        self.seq = 0
        self.put_seq = 0
        self.ready_ctr = 0
        self.n_granted_get_cancels = 0
        self.suspects = {}         # TokRec -> first time the wake-up condition was seen true
        self.new_grants = []       # granted since last settle
        self.integral = 0.0
        self.occ_t = mon.env.now
        self.t0 = mon.env.now
        self.occ = 0
        self.occ_changes = 0
        self.was_full = False
        self.cur_call = None
        self.stats = Counter()
        self.unready = 0           # number of held items not yet seen ready (delayed stores)
        self.puts_log = []         # (t, iid)
        self.gets_log = []
        self.delays_log = []       # delay travelling with each put (delayed stores fed with (item, delay))
        self.dead = False          # an exception escaped a well-formed call: stop judging
        # belts / fleets: extra per-kind observers can be attached by other oracles
        self.observers = []

    # ---------------------------------------------------------------- hooked state readers
    def contents(self):
        st = self.store
        out = [unwrap(x) for x in st.items]
        r = getattr(st, "ready_items", None)
        if r is not None:
            out.extend(r)
        return out

    def ready(self):
        st = self.store
        if self.delayed:
            r = getattr(st, "ready_items", None)
            if r is None:
                self.stats["skip_ready_attr"] += 1
                self.mon.blind = "ready_items"
                self.mon.counters["store_internals_unreadable"] += 1
                return None
            return list(r)
        return list(st.items)

    def binding_of(self, tokrec):
        """item the implementation bound to a granted retrieval token (hooked state), or None
        if it cannot be read."""
        st = self.store
        try:
            re = st.reserved_events
            idx = None
            for i, e in enumerate(re):
                if e is tokrec.tok:
                    idx = i
                    break
            if idx is None:
                return None
            ri = getattr(st, "reserved_items", None)
            if self.delayed and ri is not None:
                return ri[idx]
            if not self.delayed:
                return st.items[idx]
        except Exception:
            pass
        return None

    # ---------------------------------------------------------------- helpers
    def now(self):
        return self.mon.env.now

    def viol(self, prop, check, mech, detail):
        self.mon.violation(prop, check, mech + self.mech_suffix, detail, store=self)

    def _occ_update(self):
        now = self.now()
        self.integral += self.occ * (now - self.occ_t)
        self.occ_t = now
        n = len(self.held)
        if n != self.occ:
            self.occ_changes += 1
        self.occ = n

    def free(self):
        return self.cap - len(self.held) - len(self.grant["put"])

    def free_unleaked(self):
        """free places when the reservations that a query left behind (held by nobody) are not counted as occupants"""
        return self.cap - len(self.held) - sum(1 for r in self.grant["put"] if not r.leaked)

    # ---------------------------------------------------------------- token life cycle
    def issue(self, tok, side, prio, filt):
        self.seq += 1
        rec = TokRec(tok, self, side, prio, self.seq, self.mon.env.active_process, self.now(), filt,
                     self.mon.env.mon_steps)
        tok._m = rec
        self.pend[side].append(rec)
        self.stats["reserve_" + side] += 1
        return rec

    def on_grant(self, rec):
        """called from MonEvent.succeed - the exact grant instant and order."""
        if rec.state != "pending":
            self.viol("C07", "grant_of_nonpending", f"{self.kind}:grant-of-{rec.state}-token",
                      {"token": rec.seq, "state": rec.state})
            return
        mon = self.mon
        rec.state = "granted"
        rec.t_grant = self.now()
        mon.tick += 1
        rec.g_step = mon.tick
        mon.gseq += 1
        rec.gseq = mon.gseq
        side = rec.side
        # --- C05: nobody with a smaller key may still be pending
        call = self.cur_call
        leaving = call[1] if (call is not None and call[0].endswith("_cancel")) else None
        ahead = [a for a in self.pend[side] if a is not rec and a is not leaving and a.key() < rec.key()]
        try:
            self.pend[side].remove(rec)
        except ValueError:
            pass
        self.grant[side].append(rec)
        if call is not None:
            rec.via = call[0] if not (call[0].startswith("reserve_") and call[1] is rec) else "arrival"
        else:
            rec.via = "timer"
        self.stats["grant_via_" + str(rec.via)] += 1
        waited = not (rec.via == "arrival")
        if waited:
            self.stats["grants_after_wait"] += 1
        self.new_grants.append((rec, ahead))
        mon.dirty.add(self)
        self.suspects.pop(rec, None)

    # ---------------------------------------------------------------- API call bracket
    def classify(self, op, tok):
        """well-formedness of a put/get/cancel call according to the shadow."""
        rec = getattr(tok, "_m", None)
        ap = self.mon.env.active_process
        if op in ("put", "get"):
            if rec is None:
                return "unknown_token"
            if rec.sh is not self:
                return "foreign_store_token"
            if rec.side != op:
                return "wrong_kind_token"
            if rec.state == "pending":
                return "pending_token"
            if rec.state == "used":
                return "used_token"
            if rec.state == "cancelled":
                return "cancelled_token"
            if rec.owner is not ap:
                return "other_process_token"
            return "ok"
        else:
            side = "put" if op == "reserve_put_cancel" else "get"
            if rec is None:
                return "unknown_token"
            if rec.sh is not self:
                return "foreign_store_token"
            if rec.side != side:
                return "wrong_kind_token"
            if rec.state == "used":
                return "used_token"
            if rec.state == "cancelled":
                return "cancelled_token"
            return "ok"

    def snapshot(self):
        st = self.store
        snap = {
            "contents": tuple(id(x) for x in self.contents()),
            "ready": tuple(id(x) for x in (self.ready() or ())),
            "tokens": tuple((r.seq, r.tok.triggered) for side in ("put", "get")
                            for r in self.pend[side] + self.grant[side]),
            "sh_pend": tuple(r.seq for side in ("put", "get") for r in self.pend[side]),
            "sh_grant": tuple(r.seq for side in ("put", "get") for r in self.grant[side]),
        }
        for name in ("reserve_put_queue", "reservations_put", "reserve_get_queue", "reservations_get",
                     "reserved_events", "reserved_items"):
            v = getattr(st, name, None)
            if v is not None:
                try:
                    snap[name] = tuple(id(x) for x in v)
                except TypeError:
                    pass
        return snap

    # called by the shim -----------------------------------------------------------------
    def before(self, op, args):
        info = {"op": op, "t": self.now(), "cls": "ok", "snap": None, "rec": None, "item": None}
        if op in ("put", "get", "reserve_put_cancel", "reserve_get_cancel"):
            tok = args[0] if args else None
            cls = self.classify(op, tok)
            info["cls"] = cls
            info["rec"] = getattr(tok, "_m", None)
            if cls != "ok":
                info["snap"] = self.snapshot()
            if op == "put":
                raw = args[1] if len(args) > 1 else None
                info["item"] = unwrap(raw)
                info["delay"] = raw[1] if isinstance(raw, tuple) and len(raw) > 1 else None
        self.cur_call = (op, info["rec"])
        return info

    def after(self, info, result, exc):
        op = info["op"]
        cls = info["cls"]
        rec = info["rec"]
        self.cur_call = None
        mon = self.mon
        self.stats["call_" + op] += 1
        mon.note_call(self, op)
        if op in ("reserve_put", "reserve_get"):
            if exc is not None:
                self.viol("C20", "reserve_raised", f"{self.kind}:{op}-raised:{type(exc).__name__}",
                          {"exc": repr(exc)})
                self.viol("C02" if op == "reserve_get" else "C01", "reserve_raised", f"{self.kind}:{op}-raised:{type(exc).__name__}",
                          {"exc": repr(exc), "granted_get_cancels_so_far": self.n_granted_get_cancels})
            self.settle()
            return
        if cls != "ok":
            # ---------------- C07: must raise RuntimeError and change nothing
            self.stats["illformed_" + cls] += 1
            mon.counters["c07_illformed_calls"] += 1
            if len(self.held) >= 1 and (len(self.pend["put"]) + len(self.pend["get"]) +
                                        len(self.grant["put"]) + len(self.grant["get"])) >= 1:
                mon.counters["c07_illformed_nontrivial"] += 1
            if exc is None:
                self.viol("C07", "illformed_accepted", f"{self.kind}:{op}:{cls}:accepted",
                          {"op": op, "class": cls, "result": repr(result)})
                # the store's state is now outside the model; stop judging this store
                self.dead = True
            else:
                if not isinstance(exc, RuntimeError):
                    self.viol("C07", "illformed_wrong_exception",
                              f"{self.kind}:{op}:{cls}:{type(exc).__name__}",
                              {"op": op, "class": cls, "exc": repr(exc)})
                snap2 = self.snapshot()
                if snap2 != info["snap"]:
                    diff = [k for k in snap2 if snap2[k] != info["snap"].get(k)]
                    self.viol("C07", "illformed_changed_state", f"{self.kind}:{op}:{cls}:state-changed:{','.join(diff)}",
                              {"op": op, "class": cls, "changed": diff})
                    # the call was rejected, so the model (state unchanged) stays the reference: whatever the
                    # changed store does next (over-admission, refusing the owner's put) is judged as usual
            self.settle()
            return
        # ---------------- well-formed calls
        if op == "put":
            if exc is not None or not result:
                self.viol("C01", "put_must_succeed", f"{self.kind}:put-with-granted-token-failed:" +
                          (type(exc).__name__ if exc is not None else "falsy"),
                          {"exc": repr(exc), "result": repr(result), "token": rec.seq})
                self.dead = True
                return
            rec.state = "used"
            rec.tok = None      # no reference cycle: a token its client has forgotten is freed at once (address re-use is part of real use)
            self.grant["put"].remove(rec)
            item = info["item"]
            self.put_seq += 1
            ir = ItemRec(item, self.now(), self.put_seq, info.get("delay"), rec.owner)
            self.delays_log.append(info.get("delay"))
            ir.tok_grant_t = rec.t_grant
            ir.tok_grant_step = rec.g_step
            if id(item) in self.held:
                self.viol("C02", "duplicate_put", f"{self.kind}:same-object-put-twice", {"item": ir.iid})
            self.held[id(item)] = ir
            self.returned.discard(id(item))
            if self.forget_items:
                if id(item) in self.freed_item_addrs:
                    self.freed_item_addrs.discard(id(item))
                    self.stats["item_address_reused"] += 1
            else:
                self.keepalive.append(item)
            self._occ_update()
            self.puts_log.append((self.now(), ir.iid))
            if not self.delayed:
                self.ready_ctr += 1
                ir.ready_t = self.now()
                ir.ready_key = (self.ready_ctr, ir.put_seq)
            else:
                self.unready += 1
                mon.transit.add(self)
            for ob in self.observers:
                ob.on_put(self, ir)
            self.check_time_average()
        elif op == "get":
            if exc is not None or result is None:
                self.viol("C02", "get_must_succeed", f"{self.kind}:get-with-granted-token-failed:" +
                          (type(exc).__name__ if exc is not None else "None"),
                          {"exc": repr(exc), "token": rec.seq, "n_granted_gets": len(self.grant["get"]),
                           "granted_get_cancels_so_far": self.n_granted_get_cancels})
                self.dead = True
                return
            rec.state = "used"
            rec.tok = None
            self.grant["get"].remove(rec)
            item = result
            ir = self.held.get(id(item))
            if ir is None:
                if id(item) in self.returned:
                    self.viol("C02", "item_returned_twice", f"{self.kind}:get-returned-item-twice",
                              {"item": getattr(item, "id", repr(item))})
                else:
                    self.viol("C02", "item_invented", f"{self.kind}:get-returned-unknown-object",
                              {"item": repr(item)})
                self.dead = True
                return
            # C11: not before put + delay
            if ir.delay is not None and self.kind == "buffer":
                if self.now() < ir.put_t + ir.delay - TOL * max(1.0, abs(self.now())):
                    self.viol("C11", "early_get", "buffer:item-retrieved-before-put+delay",
                              {"item": ir.iid, "put": ir.put_t, "delay": ir.delay, "get": self.now()})
            # C06 (vi): the item handed out is the item the token was bound to
            if rec.bound is not None and rec.bound is not ir:
                self.viol("C06", "get_not_bound_item", f"{self.kind}:{self.mode}:get-returned-other-than-bound-item",
                          {"bound": rec.bound.iid, "got": ir.iid})
            if ir.token is not None and ir.token is not rec and ir.token.state == "granted":
                self.viol("C02", "took_item_of_other_token", f"{self.kind}:get-took-item-bound-to-another-granted-token",
                          {"item": ir.iid, "victim": ir.token.seq, "taker": rec.seq})
            if self.delayed and ir.ready_t is None:
                self.unready -= 1
            del self.held[id(item)]
            self.returned.add(id(item))
            self._occ_update()
            self.gets_log.append((self.now(), ir.iid))
            mon.counters["gets"] += 1
            for ob in self.observers:
                ob.on_get(self, ir, rec)
            if self.forget_items:
                self.freed_item_addrs.add(id(item))
                ir.item = None
            self.check_time_average()
        else:  # cancel
            side = rec.side
            if exc is not None or not result:
                self.viol("C07", "cancel_failed", f"{self.kind}:{op}-of-live-token-failed:" +
                          (type(exc).__name__ if exc is not None else "falsy"),
                          {"exc": repr(exc), "state": rec.state})
                self.dead = True
                return
            if rec.state == "pending":
                self.pend[side].remove(rec)
                self.stats["cancel_pending_" + side] += 1
            else:
                self.grant[side].remove(rec)
                self.stats["cancel_granted_" + side] += 1
                if side == "get":
                    self.n_granted_get_cancels += 1
                    if rec.bound is not None:
                        rec.bound.status = "released"
                        rec.bound.token = None
                else:
                    if self.was_full_now():
                        self.stats["cancel_granted_put_while_full"] += 1
            rec.state = "cancelled"
            rec.tok = None
            self.suspects.pop(rec, None)
        self.settle()

    def was_full_now(self):
        return len(self.held) + len(self.grant["put"]) + 1 >= self.cap

    # ---------------------------------------------------------------- settle: after-call / after-step
    def poll_ready(self):
        """discover items that entered the retrievable set (delayed stores)."""
        if not self.delayed or self.unready <= 0:
            return
        r = self.ready()
        if r is None:
            return
        newly = []
        for x in r:
            ir = self.held.get(id(x))
            if ir is not None and ir.ready_t is None:
                newly.append(ir)
        if newly:
            newly.sort(key=lambda ir: ir.put_seq)
            self.ready_ctr += 1
            for ir in newly:
                ir.ready_t = self.now()
                if self.kind == "buffer" and ir.delay is not None:
                    # availability order from the boundary model (put + delay), not from the store's word
                    ir.ready_key = (ir.put_t + ir.delay, ir.put_seq)
                else:
                    ir.ready_key = (self.ready_ctr, ir.put_seq)
                self.unready -= 1
                if self.kind == "buffer" and ir.delay is not None:
                    if self.now() < ir.put_t + ir.delay - TOL * max(1.0, abs(self.now())):
                        self.viol("C11", "early_ready", "buffer:item-retrievable-before-put+delay",
                                  {"item": ir.iid, "put": ir.put_t, "delay": ir.delay, "ready": self.now()})
            for ob in self.observers:
                ob.on_ready(self, newly)
        if self.unready <= 0:
            self.mon.transit.discard(self)

    def settle(self):
        if self.dead:
            self.new_grants = []
            return
        self.poll_ready()
        # ---- safety invariants (exact at this point)
        n_held = len(self.held)
        if n_held + len(self.grant["put"]) > self.cap:
            self.viol("C01", "capacity_exceeded", f"{self.kind}:held+granted_puts>capacity",
                      {"held": n_held, "granted_puts": len(self.grant["put"]), "cap": self.cap})
            if self.is_belt:
                self.viol("C12", "capacity", f"{'slotted' if self.kind == 'slotbelt' else 'belt'}:more-items-than-capacity-admitted-to-the-conveyor",
                          {"held": n_held, "granted_puts": len(self.grant["put"]), "cap": self.cap})
        if n_held + len(self.grant["put"]) >= self.cap:
            if not self.was_full:
                self.stats["times_full"] += 1
            self.was_full = True
            if self.pend["put"]:
                self.stats["full_with_pending_put"] += 1
        else:
            self.was_full = False
        try:
            cont = self.contents()
        except Exception:
            cont = None
            self.stats["skip_contents"] += 1
        if cont is not None:
            ids = [id(x) for x in cont]
            if len(ids) != n_held or set(ids) != set(self.held):
                extra = [getattr(x, "id", repr(x)) for x in cont if id(x) not in self.held]
                missing = [ir.iid for k, ir in self.held.items() if k not in set(ids)]
                dup = len(ids) != len(set(ids))
                self.viol("C02", "contents_mismatch", f"{self.kind}:store-contents!=put-minus-got" +
                          (":duplicate" if dup else "") + (":lost" if missing else "") + (":invented" if extra else ""),
                          {"extra": extra[:5], "missing": missing[:5], "n_store": len(ids), "n_model": n_held})
                self.dead = True
                return
            if len(ids) > self.cap:
                self.viol("C01", "contents_over_capacity", f"{self.kind}:len(contents)>capacity",
                          {"n": len(ids), "cap": self.cap})
        r = self.ready()
        if r is not None and len(self.grant["get"]) > len(r):
            self.viol("C02", "more_granted_gets_than_items", f"{self.kind}:granted-retrievals>retrievable-items",
                      {"granted": len(self.grant["get"]), "retrievable": len(r)})
        # ---- bindings of new grants (C06, C05-filter) and distinctness (C02)
        if self.new_grants:
            ng, self.new_grants = self.new_grants, []
            self._check_grants(ng, r)
        for ob in self.observers:
            f = getattr(ob, "on_settle", None)
            if f is not None:
                f(self)
        ri = getattr(self.store, "reserved_items", None)
        if ri is not None and self.delayed:
            ids = [id(x) for x in ri]
            if len(ids) != len(set(ids)):
                self.viol("C02", "double_binding", f"{self.kind}:{self.mode}:two-granted-retrievals-bound-to-one-item",
                          {"reserved": [getattr(x, "id", "?") for x in ri],
                           "granted_get_cancels_so_far": self.n_granted_get_cancels})
            self.stats["hooked_binding_checks"] += 1

    def _check_grants(self, ng, ready_now):
        mon = self.mon
        gets = [(rec, ahead) for rec, ahead in ng if rec.side == "get"]
        # C05 for non-filter stores and for the put side: decided at the grant instant
        for rec, ahead in ng:
            mon.counters["c05_grants_checked"] += 1
            if not ahead:
                continue
            if self.kind == "filter" and rec.side == "get":
                continue
            if rec.state == "cancelled":
                pass
            self.viol("C05", "served_out_of_order",
                      f"{self.kind}:{rec.side}:granted-while-smaller-key-pending",
                      {"granted": (rec.prio, rec.seq), "pending_ahead": [(a.prio, a.seq) for a in ahead][:4]})
        if not gets:
            return
        # bindings
        bound_recs = []
        for rec, ahead in gets:
            if rec.state != "granted":
                # already used or cancelled within the same call bracket - binding unknown
                bound_recs.append(None)
                continue
            b = self.binding_of(rec)
            if b is None:
                re_ = getattr(self.store, "reserved_events", None)
                if re_ is not None and not any(e is rec.tok for e in re_):
                    self.viol("C02", "granted_but_unbound", f"{self.kind}:{self.mode}:granted-retrieval-is-not-bound-to-any-item",
                              {"token": rec.seq, "ready": len(self.ready() or []), "granted_gets": len(self.grant["get"]),
                               "granted_get_cancels_so_far": self.n_granted_get_cancels})
                self.stats["binding_unreadable"] += 1
                bound_recs.append(None)
                continue
            ir = self.held.get(id(b))
            if ir is None:
                self.viol("C02", "bound_to_unknown_item", f"{self.kind}:granted-retrieval-bound-to-item-not-in-store",
                          {"item": getattr(b, "id", repr(b))})
                bound_recs.append(None)
                continue
            bound_recs.append(ir)
        for i, (rec, ahead) in enumerate(gets):
            ir = bound_recs[i]
            if ir is None:
                continue
            if ir.token is not None and ir.token is not rec and ir.token.state == "granted":
                self.viol("C02", "double_binding", f"{self.kind}:{self.mode}:two-granted-retrievals-bound-to-one-item",
                          {"item": ir.iid, "tokens": [ir.token.seq, rec.seq],
                           "granted_get_cancels_so_far": self.n_granted_get_cancels})
                continue
            # unreserved ready items at the grant = unreserved now + items bound by this and later grants of the bracket
            later = [bound_recs[j] for j in range(i, len(gets)) if bound_recs[j] is not None]
            U = [x for x in self.held.values()
                 if x.ready_t is not None and (x.token is None or x.token.state != "granted")]
            for l in later:
                if l not in U:
                    U.append(l)
            self._check_discipline(rec, ir, U, ahead)
            # now mark the binding
            rec.bound = ir
            ir.token = rec
            ir.status = "reserved"
            ir.ever_reserved = True
            mon.counters["c06_bindings_checked"] += 1

    def _check_discipline(self, rec, x, U, ahead):
        mon = self.mon
        kind = self.kind
        if x.ready_t is None:
            self.viol("C06", "bound_unavailable_item", f"{kind}:granted-retrieval-bound-to-item-not-yet-available",
                      {"item": x.iid})
            return
        # (v) filter
        if kind == "filter" and rec.filter is not None:
            ok = None
            try:
                ok = bool(rec.filter(x.item))
            except Exception:
                ok = None
            if ok is False:
                self.viol("C06", "filter_violated", "filter:retrieval-bound-to-item-failing-its-filter",
                          {"item": x.iid, "colour": getattr(x.item, "colour", None), "token": rec.seq,
                           "position_among_unreserved": sorted(U, key=lambda u: u.ready_key).index(x)})
            mon.counters["c06_filter_checks"] += 1
            # C05 for the filter store: somebody ahead that could have been served with an item of U
            for a in ahead:
                if a.state != "pending" and a.t_grant != rec.t_grant:
                    pass
                try:
                    servable = any(a.filter(u.item) for u in U) if a.filter is not None else bool(U)
                except Exception:
                    servable = False
                if servable:
                    self.viol("C05", "served_out_of_order", "filter:get:granted-while-servable-smaller-key-pending",
                              {"granted": (rec.prio, rec.seq), "ahead": (a.prio, a.seq)})
                    break
            if getattr(self, "late_mode", False):
                # tokens are only seen when reserve_get returns (the store does not use env.event()): the order of the grants
                # made inside one call is not observable, and with it the candidate set of a filtered retrieval
                mon.counters["c06_filter_order_undecidable_late_tokens"] += 1
                return
            others = [u for u in U if u is not x]
            if rec.filter is not None and getattr(rec.filter, "user", False):
                # FIFO among the items satisfying the filter
                try:
                    cands = [u for u in others if rec.filter(u.item)]
                except Exception:
                    cands = []
            else:
                cands = others
        else:
            cands = [u for u in U if u is not x]
        if not cands:
            mon.counters["c06_trivial_single_candidate"] += 1
            return
        mon.counters["c06_nontrivial_choices"] += 1
        lifo = (self.mode == "LIFO")
        if x.status == "never":
            if lifo:
                bad = [y for y in cands if y.ready_key > x.ready_key]
            else:
                bad = [y for y in cands if y.ready_key < x.ready_key]
            if bad:
                y = bad[0]
                what = "released" if y.status == "released" else "never-reserved"
                self.viol("C06", "order_broken",
                          f"{kind}:{self.mode}:never-reserved-item-served-ahead-of-{'younger' if lifo else 'older'}-{what}-item",
                          {"served": x.iid, "skipped": y.iid, "skipped_status": y.status,
                           "granted_get_cancels_so_far": self.n_granted_get_cancels})
                if kind == "fleet":
                    self.viol("C14", "F4_loading_order", f"fleet:delivered-items-not-handed-out-in-loading-order:skipped-{what}-item",
                              {"served": x.iid, "skipped": y.iid, "granted_get_cancels_so_far": self.n_granted_get_cancels})
                return
        else:
            mon.counters["c06_released_item_rebound"] += 1
            # released items among themselves: availability order as well (strict reading of the FIFO / LIFO clause)
            if lifo:
                bad = [y for y in cands if y.status == "released" and y.ready_key > x.ready_key]
            else:
                bad = [y for y in cands if y.status == "released" and y.ready_key < x.ready_key]
            if bad:
                y = bad[0]
                self.viol("C06", "released_order", f"{kind}:{self.mode}:released-item-served-ahead-of-{'younger' if lifo else 'older'}-released-item",
                          {"served": x.iid, "skipped": y.iid, "granted_get_cancels_so_far": self.n_granted_get_cancels})
                if kind == "fleet":
                    self.viol("C14", "F4_loading_order", "fleet:delivered-items-not-handed-out-in-loading-order:skipped-released-item",
                              {"served": x.iid, "skipped": y.iid})
        if self.n_granted_get_cancels == 0:
            best = max(U, key=lambda u: u.ready_key) if lifo else min(U, key=lambda u: u.ready_key)
            if kind == "filter" and rec.filter is not None and getattr(rec.filter, "user", False):
                pool = [x] + cands
                best = max(pool, key=lambda u: u.ready_key) if lifo else min(pool, key=lambda u: u.ready_key)
            if best is not x:
                self.viol("C06", "not_head_item", f"{kind}:{self.mode}:no-cancel-history:bound-item-is-not-the-{'youngest' if lifo else 'oldest'}-unreserved",
                          {"served": x.iid, "expected": best.iid})

    # ---------------------------------------------------------------- end of instant (C04, C11)
    def belt_entry_clear(self):
        """(hooked) True if the last entered item has moved at least one item length (+margin)."""
        st = self.store
        try:
            if not st.items:
                return True
            last = st.items[-1][0]
            now = self.now()
            if self.kind == "slotbelt":
                return now >= last.conveyor_entry_time + st.delay + 2e-5
            moved = now - last.conveyor_entry_time - (last.total_interruption_time or 0.0)
            if last.interruption_start_time is not None:
                moved -= now - last.interruption_start_time
            return moved >= last.length / st.speed + 2e-5
        except Exception:
            self.stats["skip_belt_entry"] += 1
            return None

    def belt_admissible(self):
        """(hooked, conservative) True only if the belt certainly has to admit an item now: capacity free is
        checked by the caller; here: last entered item moved >= one item length (+margin), the belt accumulates
        or nothing waits at its exit, and the head item has not travelled the whole belt."""
        clear = self.belt_entry_clear()
        if clear is not True:
            return False
        if self.grant["put"]:
            return False       # one item enters at a time
        r = self.ready()
        acc = getattr(self.store, "accumulation_mode_indicator", None)
        if self.kind == "slotbelt":
            acc = not getattr(self.store, "noaccumulation_mode_on", False)
        if not acc and r:
            return False
        if self.kind == "belt":
            return self._belt_head_allows()
        return True

    def admits_now(self):
        """True only if a space request issued now would certainly have to be granted at once"""
        if self.free() <= 0 or self.pend["put"]:
            return False
        if self.is_belt:
            return self.belt_admissible()
        return True

    def eoi(self, now, final=False):
        if self.dead:
            return
        cond = []
        r = None
        # ---- space requests
        if self.pend["put"]:
            self.mon.counters["c04_eoi_pending_put"] += 1
            if self.free() > 0:
                ok = True
                if self.is_belt:
                    ok = self.belt_admissible()
                if ok:
                    head = min(self.pend["put"], key=lambda a: a.key())
                    cond.append((head, "space-free"))
        # ---- retrieval requests
        if self.pend["get"]:
            self.mon.counters["c04_eoi_pending_get"] += 1
            if r is None:
                r = self.ready()
            if r is not None:
                avail = len(r) - len(self.grant["get"])
                if avail > 0:
                    if self.kind == "filter":
                        head = min(self.pend["get"], key=lambda a: a.key())
                        try:
                            matching = sum(1 for x in r if head.filter is None or head.filter(x))
                        except Exception:
                            matching = 0
                        if matching > len(self.grant["get"]):
                            cond.append((head, "matching-unreserved-item"))
                        else:
                            # D21-style: a later request that could be served although the head cannot
                            # is *not* required by the statement ("next in line"); counted only.
                            self.stats["filter_head_blocked"] += 1
                    else:
                        head = min(self.pend["get"], key=lambda a: a.key())
                        cond.append((head, "item-available"))
        # ---- persistence
        live = set()
        for rec, why in cond:
            live.add(rec)
            t0 = self.suspects.get(rec)
            if t0 is None:
                self.suspects[rec] = now
            elif now > t0 + PERSIST:
                if self.kind == "fleet" and rec.side == "get":
                    self.viol("C14", "F6_batch_not_handed_over", "fleet:delivered-item-not-offered-to-waiting-retrieval",
                              {"token": (rec.prio, rec.seq), "since": t0, "now": now, "ready": len(r) if r is not None else None,
                               "granted_get": len(self.grant["get"])})
                for h in self.mon.lost_wakeup_hooks:
                    h(self, rec, why)
                self.viol("C04", "lost_wakeup", f"{self.kind}:{rec.side}:pending-while-{why}",
                          {"token": (rec.prio, rec.seq), "since": t0, "now": now, "issued": rec.t_issue,
                           "free": self.free(), "ready": len(r) if r is not None else None,
                           "granted_get": len(self.grant["get"]), "pending": len(self.pend[rec.side])})
                self.suspects[rec] = float("inf")   # report once
        for rec in list(self.suspects):
            if rec not in live:
                del self.suspects[rec]
        # ---- C11: an item must be retrievable at the EOI of put+delay (buffer only)
        if self.kind == "buffer" and self.unready > 0:
            for ir in self.held.values():
                if ir.ready_t is None and ir.delay is not None:
                    due = ir.put_t + ir.delay
                    if now > due + PERSIST + TOL * max(1.0, abs(now)):
                        if ir.first_ready_eoi is None:
                            ir.first_ready_eoi = now
                            self.viol("C11", "late_ready", "buffer:item-not-retrievable-after-put+delay",
                                      {"item": ir.iid, "put": ir.put_t, "delay": ir.delay, "now": now})

    def _belt_head_allows(self):
        st = self.store
        try:
            if not st.items:
                return True
            head = st.items[0][0]
            now = self.now()
            moved = now - head.conveyor_entry_time - (head.total_interruption_time or 0.0)
            if head.interruption_start_time is not None:
                moved -= now - head.interruption_start_time
            return moved < head.length * st.capacity / st.speed - 2e-5
        except Exception:
            return False

    # ---------------------------------------------------------------- C18 (bare stores)
    def check_time_average(self):
        st = self.store
        v = getattr(st, "time_averaged_num_of_items_in_store", None)
        if self.kind == "filter":
            return
        if v is None:
            self.stats["skip_time_avg"] += 1
            return
        now = self.now()
        if now <= self.t0:
            return
        integ = self.integral + self.occ * (now - self.occ_t)
        exp = integ / now
        self.mon.counters["c18_store_avg_checks"] += 1
        if abs(v - exp) > 1e-6 * max(1.0, exp):
            self.viol("C18", "store_time_average", f"{self.kind}:time-averaged-level!=integral/now",
                      {"reported": v, "expected": exp, "now": now})
