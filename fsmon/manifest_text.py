"""Static texts for MANIFEST.json (kept next to the plan so they stay in step)."""
_STORE_NOTE = ("Trusted: SimPy kernel; the ShadowStore reference model (fsmon/shadow.py); hooked reads of "
               "items/ready_items/reserved_items only for comparison. Sampled, not exhaustive, except the E2 scopes listed in the evidence.")
TEXT = {
    "C01": {"engine": "E1+E2", "design_ref": "4/C01", "technique": "runtime monitoring: shadow-model invariant after every API call and at end of instant",
            "level": "Held on every monitored execution: thousands of generated multi-client histories per store kind with the capacity invariant "
                     "(held + granted space reservations <= capacity, store contents == model) evaluated after every call and a put-must-succeed oracle. "
                     "Sampling of an unbounded history space; no proof.", "note": _STORE_NOTE},
    "C02": {"engine": "E1+E2", "design_ref": "4/C02", "technique": "runtime monitoring: identity ledger of put/got objects, get-must-succeed oracle, distinct-binding check",
            "level": "Held on every monitored execution: identity multiset put = got + inside compared with the store's real contents after every call; "
                     "every get with a granted token must return a distinct previously put object.", "note": _STORE_NOTE},
    "C04": {"engine": "E1+E2", "design_ref": "4/C04", "technique": "runtime monitoring: end-of-instant progress oracle with persistence margin",
            "level": "Held on every monitored execution: at the end of every simulated instant no head-of-line request is pending while the shadow "
                     "model says it is servable (free space / available unreserved item / matching item).", "note": _STORE_NOTE},
    "C05": {"engine": "E1+E2", "design_ref": "4/C05", "technique": "runtime monitoring: online order oracle at the exact grant instant (Event.succeed hook)",
            "level": "Held on every monitored grant: when a token is triggered no request of the same kind with a smaller (priority, arrival) key is pending.",
            "note": _STORE_NOTE},
    "C06": {"engine": "E1+E2", "design_ref": "4/C06", "technique": "runtime monitoring: binding reference model (FIFO/LIFO/filter) checked at grant and at get",
            "level": "Held on every monitored binding: the item bound to a granted retrieval respects FIFO/LIFO/filter discipline against the set of "
                     "available unreserved items, also after cancellations; the item handed out is the bound one.", "note": _STORE_NOTE},
    "C07": {"engine": "E1+E2", "design_ref": "4/C07", "technique": "runtime monitoring: ill-formed call injection with before/after state snapshots",
            "level": "Held on every injected ill-formed call (10 classes x 9 store kinds x random reachable states): RuntimeError raised, observable state unchanged.",
            "note": _STORE_NOTE},
    "C14": {"engine": "E5+E1", "design_ref": "4/C14", "technique": "runtime monitoring: offline checker over recorded load/availability events (batch membership, capacity trigger, round-trip bounds)",
            "level": "Held on every monitored fleet history: F1 (2*transit <= availability - load <= delay + 2*transit), F2 (no departure leaves a waiting item behind), "
                     "F3 (capacity instant => everything waiting arrives exactly one round trip later), F5 (timer departures >= one delay after the previous departure); loading order via the C06 FIFO monitor.",
            "note": _STORE_NOTE + " The timer phase is not fixed by the oracle (both readings accepted)."},
}
NOT_APPLICABLE = {}
