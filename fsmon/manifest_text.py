"""Static texts for MANIFEST.json (kept next to the plan so they stay in step)."""
_STORE_NOTE = ("Trusted: SimPy kernel; the ShadowStore reference model (fsmon/shadow.py); hooked reads of "
               "items/ready_items/reserved_items only for comparison. Sampled, not exhaustive, except the E2 scopes listed in the evidence.")
_FN = """Trusted: SimPy kernel; the factory ledger (fsmon/oracles/factory.py) and ShadowStores; owner attribution of processes via generator frames. Sampled model space (random templates), not exhaustive. Conveyor out-edges of non-blocking nodes are excluded from the generated models (can_put is not implemented for conveyors: known finding)."""
TEXT = {
    "C03": {"engine": "E3", "design_ref": "4/C03", "technique": "runtime monitoring: item ledger state machine over put/get/pack/unpack/discard events + independent 'node really holds it' check at end of instant",
            "level": "Held on every monitored factory run: each flow item makes only legal transitions, is referenced by the node the ledger places it in at every end of instant, counters match, and finite drainable models end with every item received or discarded.", "note": _FN},
    "C08": {"engine": "E3", "design_ref": "4/C08", "technique": "runtime monitoring: node ledger (pull / delay draw / first offer / push per unit) with exact virtual-time equality",
            "level": "Held on every monitored unit of work: held units <= work_capacity, delay drawn once in the pull instant, first downstream offer exactly at pull + delay (combiner: within [gather+d, max(gather, worker free)+d]).", "note": _FN},
    "C09": {"engine": "E3", "design_ref": "4/C09", "technique": "runtime monitoring: discard hook on the node counters + end-of-instant 'still holds a finished unit' oracle",
            "level": "Held on every monitored run: blocking nodes never move the discard counter; non-blocking nodes never hold a finished unit across an instant and never drop while a permitted out-edge has room.", "note": _FN},
    "C10": {"engine": "E3", "design_ref": "4/C10", "technique": "runtime monitoring: end-of-instant stranded-work oracle (available item vs free worker, finished unit vs room, unused / leaked reservations) with persistence margin",
            "level": "Held at every end of instant of every monitored run, plus quiescence after finite input for drainable models.", "note": _FN},
    "C11": {"engine": "E1+E3", "design_ref": "4/C11", "technique": "runtime monitoring: probe oracle (can_put/can_get vs a reservation issued in the same state), ideal buffer model for put+delay",
            "level": "Held on every probe and every buffered item observed.", "note": _STORE_NOTE},
    "C15": {"engine": "E3", "design_ref": "4/C15", "technique": "runtime monitoring: observed first-attempt / routing sequences vs policy reference, consultation counting of wrapped selectors",
            "level": "Held on every monitored node: ROUND_ROBIN cyclic, constant obeyed, selector consulted once per item and obeyed, FIRST_AVAILABLE never skips a granted lower-index edge (nor one whose only obstacle is a reservation that an availability query left behind), edge indices are those of the declared order, recorded history equals routing.", "note": _FN},
    "C16": {"engine": "E3", "design_ref": "4/C16", "technique": "runtime monitoring: provenance ledger + observing list behind Pallet.items",
            "level": "Held on every pallet put by a combiner and every pallet unloaded by a splitter in the monitored runs.", "note": _FN},
    "C17": {"engine": "E3", "design_ref": "4/C17", "technique": "runtime monitoring: independent integration of processing/blocked/idle intervals from observed pulls, offers and pushes vs reported state times",
            "level": "Held on every monitored node after finalisation at T (sums, set-up charge, truthfulness within 1e-5*T).", "note": _FN},
    "C12": {"engine": "E4+E3", "design_ref": "4/C12", "technique": "runtime monitoring: kinematic reference from put/ready/get events (order, capacity, entry spacing, minimum and exact travel time)",
            "level": "Held on every monitored journey (uniform and mixed item lengths), except the listed known findings (ragged geometry; order after an overlap on the accumulating continuous belt).", "note": _FN},
    "C13": {"engine": "E4+E3", "design_ref": "4/C13", "technique": "runtime monitoring: stall intervals reconstructed from boundary events; moved-time equation (non-accumulating) and ideal accumulating reference r_k = max(p_k+T, g_(k-1)+s)",
            "level": "Non-accumulating continuous belt: held on every monitored journey. Accumulating continuous belt and both slotted modes deviate (known findings, keyed by mechanism); anything else is a violation.", "note": _FN},
    "C20": {"engine": "E8+E3+E1", "design_ref": "4/C20", "technique": "runtime monitoring: kernel monitor (exceptions escaping step(), events per instant) over an exhaustive configuration matrix, the invalid-configuration table and random models",
            "level": "Matrix and invalid table are enumerated completely (exhaustive for that finite space); random factories and store histories are sampled. Crashes are keyed by (exception type, raising function, message pattern).", "note": _FN},
    "C19": {"engine": "E7", "design_ref": "4/C19", "technique": "runtime monitoring: differential replay of the same model (in-process, unmonitored, fresh interpreters with other hash seeds) and of the same store-level client history (forgetful clients whose freed tokens / items have their addresses re-used vs clients that keep every object alive, and a fresh interpreter) + clock monotonicity assertion at every kernel step",
            "level": "Held on every compared pair of runs; also guards the harness (monitored vs unmonitored statistics identical).", "note": _FN},
    "C18": {"engine": "E3+E1", "design_ref": "4/C18", "technique": "runtime monitoring: shadow occupancy integral, event-exact counter comparison, cycle-time bounds",
            "level": "Held on every monitored edge, node and sink.", "note": _FN},

    "C01": {"engine": "E1+E2", "design_ref": "4/C01", "technique": "runtime monitoring: shadow-model invariant after every API call and at end of instant",
            "level": "Held on every monitored execution: thousands of generated multi-client histories per store kind with the capacity invariant "
                     "(held + granted space reservations <= capacity, store contents == model) evaluated after every call and a put-must-succeed oracle. "
                     "Sampling of an unbounded history space; no proof.", "note": _STORE_NOTE},
    "C02": {"engine": "E1+E2", "design_ref": "4/C02", "technique": "runtime monitoring: identity ledger of put/got objects, get-must-succeed oracle, distinct-binding check",
            "level": "Held on every monitored execution: identity multiset put = got + inside compared with the store's real contents after every call; "
                     "every get with a granted token must return a distinct previously put object.", "note": _STORE_NOTE},
    "C04": {"engine": "E1+E2", "design_ref": "4/C04", "technique": "runtime monitoring: end-of-instant progress oracle with persistence margin",
            "level": "Held on every monitored execution: at the end of every simulated instant no head-of-line request is pending while the shadow "
                     "model says it is servable (free space / available unreserved item / matching item).", "note": _STORE_NOTE},
    "C05": {"engine": "E1+E2", "design_ref": "4/C05", "technique": "runtime monitoring: online order oracle at the exact grant instant (Event.succeed hook)",
            "level": "Held on every monitored grant: when a token is triggered no request of the same kind with a smaller (priority, arrival) key is pending.",
            "note": _STORE_NOTE},
    "C06": {"engine": "E1+E2", "design_ref": "4/C06", "technique": "runtime monitoring: binding reference model (FIFO/LIFO/filter) checked at grant and at get",
            "level": "Held on every monitored binding: the item bound to a granted retrieval respects FIFO/LIFO/filter discipline against the set of "
                     "available unreserved items, also after cancellations; the item handed out is the bound one.", "note": _STORE_NOTE},
    "C07": {"engine": "E1+E2", "design_ref": "4/C07", "technique": "runtime monitoring: ill-formed call injection with before/after state snapshots",
            "level": "Held on every injected ill-formed call (10 classes x 9 store kinds x random reachable states): RuntimeError raised, observable state unchanged.",
            "note": _STORE_NOTE},
    "C14": {"engine": "E5+E1", "design_ref": "4/C14", "technique": "runtime monitoring: offline checker over recorded load/availability events (batch membership, capacity trigger, round-trip bounds)",
            "level": "Held on every monitored fleet history: F1 (2*transit <= availability - load <= delay + 2*transit), F2 (no departure leaves a waiting item behind), "
                     "F3 (capacity instant => everything waiting arrives exactly one round trip later), F5 (timer departures >= one delay after the previous departure); loading order via the C06 FIFO monitor.",
            "note": _STORE_NOTE + " The timer phase is not fixed by the oracle (both readings accepted)."},
}
NOT_APPLICABLE = {}
