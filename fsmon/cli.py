"""./check <property> quick|thorough      ./check <property> --replay <file>

Runs the engines that serve the property as shards in subprocesses (16 at a time), filters the
monitors' verdicts for this property, matches them against known_findings.json, writes
evidence/<property>.json and exits 0 (held on what was observed / only known findings),
1 (VIOLATION line printed) or 2 (INCONCLUSIVE)."""
import hashlib
import json
import os
import re
import subprocess
import sys
import time
from collections import Counter
from concurrent.futures import ThreadPoolExecutor

from . import REPO
from .plan import PLAN, RULES, FLOORS

HERE = os.path.dirname(os.path.dirname(os.path.abspath(__file__)))
PY = "/venv/bin/python"
NPROC = int(os.environ.get("VERIF_JOBS", "16"))


def tree_identity():
    try:
        head = subprocess.run(["git", "-C", REPO, "rev-parse", "HEAD"], capture_output=True, text=True, timeout=20).stdout.strip()
        diff = subprocess.run(["git", "-C", REPO, "diff", "HEAD", "--", "src"], capture_output=True, text=True, timeout=20).stdout
        dirty = hashlib.sha256(diff.encode()).hexdigest()[:12] if diff else "clean"
    except Exception:
        head, dirty = "unknown", "unknown"
    return {"repo": REPO, "head": head, "dirty": dirty}


def load_known():
    p = os.path.join(HERE, "known_findings.json")
    try:
        with open(p) as f:
            return json.load(f).get("findings", [])
    except FileNotFoundError:
        return []


def match_known(known, prop, check, mech):
    for k in known:
        if k.get("status") != "known" or k.get("property") != prop:
            continue
        m = k.get("match", {})
        if m.get("check") and m["check"] != check:
            continue
        if m.get("mechanism") and not re.search(m["mechanism"], mech):
            continue
        return k
    return None


def run_shard(args):
    engine, params, base, first, count, prop, timeout = args
    cmd = [PY, "-m", "fsmon.worker", engine, json.dumps(params), str(base), str(first), str(count), prop]
    env = dict(os.environ)
    env.setdefault("PYTHONHASHSEED", "0")
    env["PYTHONPATH"] = HERE
    t0 = time.time()
    try:
        p = subprocess.run(cmd, capture_output=True, text=True, timeout=timeout, cwd=HERE, env=env)
    except subprocess.TimeoutExpired:
        return {"inconclusive": f"watchdog {timeout}s", "engine": engine, "first": first, "count": count}
    if p.returncode != 0 or not p.stdout.strip():
        return {"inconclusive": f"worker rc={p.returncode}: {p.stderr[-800:]}", "engine": engine, "first": first, "count": count}
    try:
        return json.loads(p.stdout.strip().splitlines()[-1])
    except Exception as e:
        return {"inconclusive": f"bad worker output: {e}: {p.stdout[-300:]}", "engine": engine}


def run_property(prop, tier, seed, replay=None):
    t0 = time.time()
    plan = PLAN[prop][tier]
    jobs = []
    for ent in plan:
        engine, params, n = ent["engine"], ent.get("params", {}), ent["cases"]
        per = max(1, -(-n // (ent.get("shards") or NPROC)))
        first = 0
        while first < n:
            c = min(per, n - first)
            # shard watchdog: generous (a loaded machine must not turn a long shard into an inconclusive one; cases that
            # really hang are caught one by one by the hang watchdog of the worker)
            jobs.append((engine, params, seed, first, c, prop, max(ent.get("timeout", 900), 900 + int(0.6 * c))))
            first += c
    with ThreadPoolExecutor(max_workers=NPROC) as ex:
        results = list(ex.map(run_shard, jobs))
    return aggregate(prop, tier, seed, plan, results, t0)


def aggregate(prop, tier, seed, plan, results, t0):
    known = load_known()
    counters, stats, kinds, crash_mech, extra = Counter(), Counter(), Counter(), Counter(), {}
    viol_count = Counter()
    viols, samples, nthashes, inconcl = [], [], set(), []
    cases = crashed = steps = sigs = nt_extra = 0
    per_engine = Counter()
    for r in results:
        if "inconclusive" in r:
            inconcl.append(r)
            continue
        cases += r["cases"]
        per_engine[r["engine"]] += r["cases"]
        crashed += r["crashed"]
        steps += r["steps"]
        sigs += r["sigs"]
        counters.update(r["counters"])
        stats.update(r["stats"])
        kinds.update(r["kinds"])
        crash_mech.update(r["crash_mech"])
        viol_count.update(r["viol_count"])
        viols.extend(r["viol"])
        nthashes.update(h for h in r["nontrivial_hashes"] if h)
        nt_extra += r.get("nontrivial_extra", 0)
        if len(samples) < 3:
            samples.extend(r["samples"][: 3 - len(samples)])
        for k, v in r.get("extra", {}).items():
            if isinstance(v, (int, float)):
                extra[k] = extra.get(k, 0) + v
            else:
                extra.setdefault(k, [])
                extra[k].extend(v[: max(0, 20 - len(extra[k]))])
        if r.get("harness_tb"):
            extra.setdefault("harness_tb", r["harness_tb"])
    # classify violations
    known_hits, unknown = Counter(), Counter()
    for key, n in viol_count.items():
        p, check, mech = key.split("|", 2)
        k = match_known(known, p, check, mech)
        if k is not None:
            known_hits[k["key"]] += n
        else:
            unknown[key] += n
    out_lines = []
    replay_paths = []
    if unknown:
        os.makedirs(os.path.join(HERE, "replays"), exist_ok=True)
        written = set()
        for v in viols:
            key = f"{v['property']}|{v['check']}|{v['mechanism']}"
            if key in unknown and key not in written:
                written.add(key)
                digest = hashlib.sha256(key.encode()).hexdigest()[:10]
                path = os.path.join("replays", f"{prop}-{digest}.json")
                with open(os.path.join(HERE, path), "w") as f:
                    json.dump({"property": prop, "key": key, "count": unknown[key], "violation": v}, f, indent=1, default=repr)
                replay_paths.append(path)
                out_lines.append(f"VIOLATION property={prop} replay={path}")
        for key in unknown:
            if key not in written:
                out_lines.append(f"VIOLATION property={prop} replay=replays/{prop}-unsaved.json  # {key}")
    for k in known:
        if k.get("status") == "known" and k["property"] == prop and known_hits.get(k["key"]):
            out_lines.append(f"KNOWN-FINDING: property={prop} {k['key']}: {k['what']} (observed {known_hits[k['key']]}x)")
    floors = FLOORS.get(prop, {}).get(tier, {})
    floor_fail = []
    agg_all = dict(counters)
    agg_all.update({"cases": cases, "distinct_nontrivial": len(nthashes) + nt_extra})
    for name, minimum in floors.items():
        val = agg_all.get(name, stats.get(name, extra.get(name, 0)))
        if not isinstance(val, (int, float)) or val < minimum:
            floor_fail.append(f"{name}={val}<{minimum}")
    if counters.get("store_internals_unreadable", 0):
        # the stores no longer expose the state the reference models read (attribute renamed or removed): never "held"
        floor_fail.append(f"store_internals_unreadable={counters['store_internals_unreadable']}")
    if prop != "C20" and cases and crashed > 0.25 * cases:
        # the workload dies before the deciding monitors can observe: never report this as "held"
        floor_fail.append(f"crashed_cases={crashed}>25%of{cases}")
    wall = time.time() - t0
    if inconcl:
        # part of the planned workload did not report (watchdog, dead worker): what ran may have held, the check has not
        floor_fail.append(f"inconclusive_shards={len(inconcl)}")
    status = "violated" if unknown else ("inconclusive" if floor_fail else "held")
    evidence = {
        "property_id": prop, "tier": tier, "seed": seed, "level": "exploration",
        "coverage": {
            "evaluations": cases,
            "distinct_nontrivial": len(nthashes) + nt_extra,
            "rule": RULES[prop],
            "samples": samples[:3] or [{"note": "no sample"}],
            "exhaustive": bool(extra.get("exhaustive_scopes")),
            "exhaustive_scopes": extra.get("exhaustive_scopes", []),
            "cases_per_engine": dict(per_engine),
            "cases_by_kind": dict(kinds),
            "kernel_steps": steps,
            "distinct_same_instant_call_signatures": sigs,
            "monitor_counters": dict(counters),
            "store_stats": dict(stats),
            "extra": {k: v for k, v in extra.items() if k not in ("exhaustive_scopes",)},
            "crashed_cases": crashed,
            "crash_mechanisms": dict(crash_mech),
            "inconclusive_shards": [{"engine": r.get("engine"), "why": r["inconclusive"][:300]} for r in inconcl],
            "known_finding_hits": dict(known_hits),
            "unlisted_violation_keys": dict(unknown),
            "floors": floors, "floor_failures": floor_fail,
            "verdict": status,
            "tree": tree_identity(),
        },
        "assumptions": [
            "SimPy kernel (event queue order, Process/Event semantics) is trusted",
            "same-instant orderings are those the kernel produces for the generated construction orders and delay lattices",
            "the ShadowStore / ledger reference models in /verif/fsmon are the oracle",
        ],
        "wall_s": round(wall, 2),
        "violations": int(sum(unknown.values())),
    }
    evdir = os.environ.get("VERIF_EVIDENCE_DIR") or os.path.join(HERE, "evidence")
    os.makedirs(evdir, exist_ok=True)
    with open(os.path.join(evdir, f"{prop}.json"), "w") as f:
        json.dump(evidence, f, indent=1, default=repr)
    for l in out_lines:
        print(l)
    print(f"[{prop} {tier}] cases={cases} distinct_nontrivial={len(nthashes) + nt_extra} crashed={crashed} "
          f"unlisted_violations={sum(unknown.values())} known_hits={sum(known_hits.values())} "
          f"inconclusive_shards={len(inconcl)} wall={wall:.1f}s verdict={status}")
    if unknown:
        return 1
    if status == "inconclusive":
        print(f"INCONCLUSIVE property={prop} reason={'; '.join(floor_fail) or 'all shards inconclusive'}")
        return 2
    return 0


def replay(prop, path):
    with open(path if os.path.isabs(path) else os.path.join(HERE, path)) as f:
        doc = json.load(f)
    v = doc["violation"]
    spec = v["spec"]
    from .worker import get_engine
    import contextlib
    fn = get_engine(spec["engine"])
    with contextlib.redirect_stdout(open(os.devnull, "w")):
        r = fn(spec["seed"], spec.get("params_in") or {}, spec=spec)
    hits = [x for x in r.get("viol", []) if x["property"] == prop]
    keys = {k: n for k, n in r.get("viol_count", {}).items() if k.startswith(prop + "|")}
    print(json.dumps({"spec": spec, "violations": keys, "first": hits[:2]}, indent=1, default=repr))
    if doc["key"] in keys:
        print(f"VIOLATION property={prop} replay={path}")
        return 1
    print("replay: the recorded violation did not reproduce on this tree")
    return 0


def main(argv=None):
    argv = list(sys.argv[1:] if argv is None else argv)
    if len(argv) < 2:
        print(__doc__)
        return 64
    prop = argv[0]
    if argv[1] == "--replay":
        return replay(prop, argv[2])
    tier = os.environ.get("VERIF_TIER") or argv[1]
    if len(argv) > 1 and argv[1] in ("quick", "thorough"):
        tier = argv[1]
    seed = int(os.environ.get("VERIF_SEED", "0"))
    return run_property(prop, tier, seed)


if __name__ == "__main__":
    sys.exit(main())
