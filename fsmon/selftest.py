"""setup_cmd: nothing to build; checks that the tree under test imports and the shims install."""
import json
import os
import sys

from . import use_repo, REPO


def main():
    use_repo()
    from . import shim
    w = shim.install()
    bad = {k: v for k, v in w.items() if isinstance(v, str)}
    import simpy
    print("fsmon selftest: repo", REPO, "simpy", simpy.__version__, "wrapped", len(w) - len(bad), "store classes; missing", bad)
    here = os.path.dirname(os.path.dirname(os.path.abspath(__file__)))
    json.load(open(os.path.join(here, "MANIFEST.json")))
    kf = os.path.join(here, "known_findings.json")
    if os.path.exists(kf):
        json.load(open(kf))
    return 0


if __name__ == "__main__":
    sys.exit(main())
