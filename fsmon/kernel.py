"""Monitored SimPy kernel.

MonEnv is a plain subclass of simpy.Environment: it changes nothing in the scheduling
(no tie-break randomisation, no extra events) and only calls back into a Monitor

 * when an Event is triggered with succeed()          -> exact grant order of tokens
 * when a Process is created                          -> owner object / generator name / args
 * at the begin and end of every process slice        -> per-slice polling (discards ...)
 * after every kernel step                            -> per-step polling
 * at the end of every simulated instant (EOI)        -> progress / no-lost-wake-up checks
 * clock monotonicity and events-per-instant counting -> C19 / C20
"""
import simpy
from simpy.core import BoundClass
from simpy.events import Event, Process

LIVELOCK_LIMIT = 10000


class Livelock(Exception):
    pass


class Hang(Exception):
    """raised by the wall-clock watchdog into a kernel step that does not return (an endless loop that never yields)"""


CURRENT_ENV = None
HANG_PERIOD = 20.0     # seconds of wall clock between two looks of the watchdog
HANG_LOOKS = 3         # consecutive looks that find the same kernel step still running
_wd = {"env": None, "steps": -1, "n": 0}


def _on_alarm(signum, frame):
    env = CURRENT_ENV
    if env is None or not getattr(env, "mon_in_step", False):
        _wd.update(env=None, steps=-1, n=0)
        return
    if _wd["env"] is env and _wd["steps"] == env.mon_steps:
        _wd["n"] += 1
    else:
        _wd.update(env=env, steps=env.mon_steps, n=1)
    if _wd["n"] >= HANG_LOOKS:
        _wd.update(env=None, steps=-1, n=0)
        raise Hang(f"one kernel event callback has been running for more than {int(HANG_PERIOD * (HANG_LOOKS - 1))} s of wall clock "
                   f"without returning (t={env._now}): endless loop that never yields")


def install_hang_watchdog():
    """A normal kernel step takes microseconds; a step that is still the same one after HANG_LOOKS looks 20 s apart does not
    return.  The margin (7 orders of magnitude) makes machine load irrelevant; slow-but-progressing runs are never hit
    because the step counter moves."""
    import signal
    try:
        signal.signal(signal.SIGALRM, _on_alarm)
        signal.setitimer(signal.ITIMER_REAL, HANG_PERIOD, HANG_PERIOD)
    except (ValueError, AttributeError, OSError):
        pass


class MonEvent(Event):
    def __init__(self, env):
        Event.__init__(self, env)
        ctx = env._mon_ctx
        if ctx is not None:
            env._mon.capture(ctx, self)

    # the grant hook lives on simpy's own Event.succeed (patched once, see install_succeed_hook): a store that creates its
    # tokens with simpy.Event(env) instead of env.event() is observed just the same


_hooked = False


def install_succeed_hook():
    """Class-level wrapper of simpy.events.Event.succeed: reports the grant of every event that carries a token record."""
    global _hooked
    if _hooked:
        return
    _hooked = True
    orig = Event.succeed

    def succeed(self, value=None):
        r = orig(self, value)
        if getattr(self, "_m", None) is not None:
            mon = getattr(self.env, "_mon", None)
            if mon is not None:
                mon.on_succeed(self)
        return r
    succeed._fsmon = True
    Event.succeed = succeed


install_succeed_hook()


class MonProcess(Process):
    def __init__(self, env, generator):
        # owner info is read before the first slice runs
        info = None
        try:
            fr = generator.gi_frame
            loc = fr.f_locals if fr is not None else {}
            info = (generator.gi_code.co_name, loc.get("self"), dict(loc))
        except Exception:
            info = (getattr(generator, "__name__", "?"), None, {})
        self.mon_name, self.mon_owner, self.mon_args = info
        self.mon_parent = env._active_proc
        self.mon_birth = env._now
        self.mon_id = len(env.mon_procs)
        env.mon_procs.append(self)
        Process.__init__(self, env, generator)
        mon = env._mon
        if mon is not None:
            for h in mon.proc_hooks:
                h(self)

    def mon_locals(self):
        """locals of the process' generator frame and of every sub-generator it currently delegates to (`yield from`):
        a worker that was split into helper generators keeps its item in the helper's frame"""
        out = {}
        g = self._generator
        if getattr(g, "gi_running", False):
            # the process is executing right now (a hook fired inside it): its frames are on the Python call stack
            import sys
            top = g.gi_frame
            chain, f = [], sys._getframe(1)
            while f is not None and len(chain) < 60:
                chain.append(f)
                if f is top:
                    break
                f = f.f_back
            if chain and chain[-1] is top:
                for fr in reversed(chain):
                    if "factorysimpy" in fr.f_code.co_filename:
                        try:
                            out.update(fr.f_locals)
                        except Exception:
                            pass
                return out
        for _ in range(8):
            if g is None:
                break
            try:
                fr = g.gi_frame
                if fr is not None:
                    out.update(fr.f_locals)
                if getattr(g, "gi_running", False):
                    break          # (reading gi_yieldfrom of a *running* generator crashes CPython 3.12.1)
                g = getattr(g, "gi_yieldfrom", None)
                if g is not None and not hasattr(g, "gi_frame"):
                    break
            except Exception:
                break
        return out


class MonEnv(simpy.Environment):
    event = BoundClass(MonEvent)
    process = BoundClass(MonProcess)

    def __init__(self, initial_time=0):
        global CURRENT_ENV
        CURRENT_ENV = self
        self.mon_in_step = False
        self._mon = None
        self._mon_ctx = None
        self.__ap = None
        self.mon_procs = []
        self.mon_steps = 0
        self.mon_instant_events = 0
        self.mon_max_burst = 0
        self.mon_instants = 0
        self.mon_clock_back = []
        self.mon_ctx_event_hook = None
        super().__init__(initial_time)

    # -- process slices ---------------------------------------------------------------
    @property
    def _active_proc(self):
        return self.__ap

    @_active_proc.setter
    def _active_proc(self, p):
        old = self.__ap
        self.__ap = p
        mon = self._mon
        if mon is not None:
            if p is None and old is not None:
                mon.on_slice_end(old)
            elif p is not None:
                mon.on_slice_begin(p)

    # -- stepping ---------------------------------------------------------------------
    def step(self):
        before = self._now
        self.mon_in_step = True
        try:
            super().step()
        finally:
            self.mon_in_step = False
        self.mon_steps += 1
        now = self._now
        if now < before:
            self.mon_clock_back.append((before, now))
        if now == before:
            self.mon_instant_events += 1
            if self.mon_instant_events > LIVELOCK_LIMIT:
                raise Livelock(f"{self.mon_instant_events} kernel events at t={now} without clock advance")
        else:
            self.mon_instant_events = 1
        if self.mon_instant_events > self.mon_max_burst:
            self.mon_max_burst = self.mon_instant_events
        mon = self._mon
        if mon is not None:
            mon.on_step()
            q = self._queue
            if not q or q[0][0] > now:
                self.mon_instants += 1
                mon.on_eoi(now)
