"""Shard worker: runs a contiguous range of cases of one engine and prints one JSON document.

usage: python -m fsmon.worker <engine> <params-json> <base_seed> <first_index> <count> <property>
"""
import contextlib
import hashlib
import io
import json
import os
import sys
import time
import traceback
from collections import Counter


def case_seed(base, engine, index):
    h = hashlib.sha256(f"{base}|{engine}|{index}".encode()).digest()
    return int.from_bytes(h[:6], "big")


def get_engine(name):
    if name == "E1":
        from .workloads import e1
        return e1.run_case_params
    if name == "E1p":
        from .workloads import e1p
        return e1p.run_case_params
    if name == "E2p":
        from .workloads import e2p
        return e2p.run_case_params
    if name == "E2":
        from .workloads import e2
        return e2.run_unit_params
    if name == "E3":
        from .workloads import e3
        return e3.run_case_params
    if name == "E4":
        from .workloads import e4
        return e4.run_case_params
    if name == "E5":
        from .workloads import e5
        return e5.run_case_params
    if name == "E7":
        from .workloads import e7
        return e7.run_case_params
    if name == "E8":
        from .workloads import e8
        return e8.run_case_params
    raise ValueError(name)


INDEXED = {"E2", "E8", "E2p"}


def crash_mechanism(crash):
    msg = crash.get("msg", "")
    # strip volatile parts (addresses, times, ids) from the message
    import re
    msg = re.sub(r"0x[0-9a-f]+", "0x", msg)
    msg = re.sub(r"[-+]?\d+(\.\d+)?", "N", msg)
    return f"{crash['type']}:{crash['where']}:{msg[:60]}"


def run_shard(engine, params, base, first, count, prop, out=None):
    fn = get_engine(engine)
    from .kernel import install_hang_watchdog
    install_hang_watchdog()
    agg = {
        "engine": engine, "cases": 0, "crashed": 0, "counters": Counter(), "stats": Counter(),
        "nontrivial_hashes": [], "viol": [], "viol_count": Counter(), "samples": [], "crash_mech": Counter(),
        "kinds": Counter(), "viol_keys": {}, "sigs": 0, "steps": 0, "max_burst": 0, "wall": 0.0, "extra": {},
    }
    devnull = open(os.devnull, "w")
    t0 = time.time()
    for i in range(first, first + count):
        seed = case_seed(base, engine, i)
        try:
            with contextlib.redirect_stdout(devnull):
                r = fn(seed, params, index=i) if engine in INDEXED else fn(seed, params)
        except Exception as e:  # harness failure: never a verdict
            agg["counters"]["harness_errors"] += 1
            agg.setdefault("harness_tb", traceback.format_exc()[-1500:])
            continue
        agg["cases"] += r.get("multi", 1)
        spec = r.get("spec", {})
        spec["index"] = i
        spec["base_seed"] = base
        agg["kinds"][str(spec.get("kind", spec.get("variant", "")))] += 1
        for k, v in r.get("counters", {}).items():
            agg["counters"][k] += v
        for k, v in r.get("stats", {}).items():
            agg["stats"][k] += v
        agg["steps"] += r.get("steps", 0)
        agg["sigs"] += r.get("sigs", 0)
        agg["max_burst"] = max(agg["max_burst"], r.get("max_burst", 0))
        if r.get("clock_back"):
            r.setdefault("viol", []).append({"property": "C19", "check": "clock_went_back", "mechanism": "kernel:clock-decreased",
                                             "detail": {"n": r["clock_back"]}})
            r.setdefault("viol_count", {})["C19|clock_went_back|kernel:clock-decreased"] = r["clock_back"]
        crash = r.get("crash")
        if crash and r.get("expected_crash"):
            agg["counters"]["expected_rejections_of_injected_out_of_range_index"] += 1
        elif crash:
            agg["crashed"] += crash.get("count", 1)
            mech = crash_mechanism(crash)
            agg["crash_mech"][mech] += 1
            if not r.get("expected_crash"):
                chk = {"Livelock": "livelock", "Hang": "hang"}.get(crash["type"], "crash")
                if chk == "hang":
                    agg["counters"]["hangs"] += 1
                r.setdefault("viol", []).append({"property": "C20", "check": chk, "mechanism": mech, "detail": crash})
                key = f"C20|{chk}|{mech}"
                r.setdefault("viol_count", {})[key] = r.get("viol_count", {}).get(key, 0) + 1
        nt = r.get("nontrivial", {})
        if nt.get(prop):
            agg["nontrivial_hashes"].append(r.get("hash"))
        agg["nontrivial_extra"] = agg.get("nontrivial_extra", 0) + r.get("nt_count", {}).get(prop, 0)
        for k, v in r.get("viol_count", {}).items():
            if prop == "ALL" or k.startswith(prop + "|"):
                agg["viol_count"][k] += v
        for v in r.get("viol", []):
            if prop == "ALL" or v["property"] == prop:
                key = f"{v['property']}|{v['check']}|{v['mechanism']}"
                if agg["viol_keys"].get(key, 0) < 1 and len(agg["viol"]) < 60:
                    agg["viol_keys"][key] = agg["viol_keys"].get(key, 0) + 1
                    v = dict(v)
                    v["spec"] = spec
                    agg["viol"].append(v)
        if agg["counters"]["hangs"] >= 3:
            # every hang costs a minute of wall clock: three witnesses are enough, the rest of the shard is not run
            agg["counters"]["shards_cut_short_after_3_hangs"] += 1
            break
        if len(agg["samples"]) < 2 and (nt.get(prop) or i == first + count - 1):
            agg["samples"].append({"spec": spec, "ops": r.get("sample_ops", [])[:30], "notes": r.get("sample_notes")})
        for k, v in r.get("extra", {}).items():
            if isinstance(v, (int, float)):
                agg["extra"][k] = agg["extra"].get(k, 0) + v
            elif isinstance(v, list):
                agg["extra"].setdefault(k, [])
                if len(agg["extra"][k]) < 50:
                    agg["extra"][k].extend(v[:50 - len(agg["extra"][k])])
    agg["wall"] = time.time() - t0
    for k in ("counters", "stats", "viol_count", "crash_mech", "kinds"):
        agg[k] = dict(agg[k])
    return agg


def main():
    engine, params, base, first, count, prop = sys.argv[1:7]
    agg = run_shard(engine, json.loads(params), int(base), int(first), int(count), prop)
    sys.stdout.write(json.dumps(agg, default=repr))
    sys.stdout.write("\n")
    sys.stdout.flush()
    # generator finally-blocks of the library print at interpreter exit
    os._exit(0)


if __name__ == "__main__":
    main()
