"""E7 - reproducibility driver (C19): the same model spec is run
  (a) twice in this interpreter under the monitors,
  (b) once unmonitored (plain simpy.Environment; guards the harness itself),
  (c) in fresh interpreters with other PYTHONHASHSEED values and a different heap pre-fill,
and the canonical logs (time, edge, put/get, item id) and final statistics are compared exactly."""
import contextlib
import hashlib
import json
import os
import random
import subprocess
import sys

from .. import use_repo, shim
from ..kernel import MonEnv
from ..monitor import Monitor
from . import e3


def canon_stats(m):
    out = {}
    for nid, n in sorted(m.nodes.items()):
        st = {}
        for k, v in dict(n.stats).items():
            st[k] = dict(v) if isinstance(v, dict) else (list(v) if isinstance(v, list) else v)
        out[nid] = st
    for eid, e in sorted(m.edges.items()):
        out[eid] = {k: (dict(v) if isinstance(v, dict) else v) for k, v in dict(e.stats).items()}
    return out


def finalise(m, T):
    for n in m.nodes.values():
        try:
            n.update_final_state_time(T)
        except Exception as e:
            pass
    for e in m.edges.values():
        for name in ("update_final_buffer_avg_content", "update_final_fleet_avg_content", "update_final_conveyor_avg_content"):
            f = getattr(e, name, None)
            if f is not None:
                try:
                    f(T)
                except Exception:
                    pass


def run_monitored(spec):
    from ..oracles import factory
    env = MonEnv()
    mon = Monitor(env)
    m = e3.build(spec, env)
    fo = factory.FactoryOracle(mon, m, {})
    exc = None
    try:
        env.run(until=spec["T"])
    except Exception as e:
        exc = repr(e)[:200]
    log = [tuple(e) for e in fo.events]
    mon.suppress = True
    finalise(m, spec["T"])
    return log, canon_stats(m), exc, env


def run_plain(spec):
    import simpy
    env = simpy.Environment()
    m = e3.build(spec, env)
    exc = None
    try:
        env.run(until=spec["T"])
    except Exception as e:
        exc = repr(e)[:200]
    finalise(m, spec["T"])
    return canon_stats(m), exc


def make_spec(seed, params):
    spec = e3.gen_spec(seed, params.get("profile", "core"), params.get("variant"), params.get("templates"))
    if spec["T"] < params.get("min_T", 0):
        spec["T"] = params["min_T"] + 0.37
    return spec


def digest(obj):
    return hashlib.sha256(json.dumps(obj, sort_keys=True, default=repr).encode()).hexdigest()[:20]


def child_main():
    seed = int(sys.argv[1])
    params = json.loads(sys.argv[2])
    prefill = int(sys.argv[3])
    junk = [object() for _ in range(prefill)]
    junk2 = [{"a": i} for i in range(prefill // 7)]
    use_repo()
    shim.install()
    spec = make_spec(seed, params)
    with contextlib.redirect_stdout(open(os.devnull, "w")):
        log, stats, exc, env = run_monitored(spec)
    sys.stdout.write(json.dumps({"log": digest(log), "stats": digest(stats), "n": len(log), "exc": exc}) + "\n")
    sys.stdout.flush()
    os._exit(0)


def run_case(seed, params=None):
    use_repo()
    shim.install()
    params = params or {}
    spec = make_spec(seed, params)
    viol, vc = [], {}

    def v(check, mech, detail):
        key = f"C19|{check}|{mech}"
        vc[key] = vc.get(key, 0) + 1
        if len(viol) < 4:
            viol.append({"property": "C19", "check": check, "mechanism": mech, "detail": detail, "log_tail": []})

    log1, st1, exc1, env1 = run_monitored(spec)
    log2, st2, exc2, env2 = run_monitored(spec)
    if log1 != log2:
        k = next((i for i in range(min(len(log1), len(log2))) if log1[i] != log2[i]), min(len(log1), len(log2)))
        v("same_interpreter_log", "run-twice-in-one-interpreter:item-movement-log-differs", {"at": k, "a": log1[k:k + 2], "b": log2[k:k + 2]})
    if st1 != st2:
        v("same_interpreter_stats", "run-twice-in-one-interpreter:statistics-differ", {"a": digest(st1), "b": digest(st2)})
    if exc1 != exc2:
        v("same_interpreter_exc", "run-twice-in-one-interpreter:one-run-crashed-differently", {"a": exc1, "b": exc2})
    st3, exc3 = run_plain(spec)
    if st3 != st1 and exc1 is None and exc3 is None:
        diff = [k for k in st1 if st1[k] != st3.get(k)]
        v("monitored_vs_plain", "harness:monitored-run-differs-from-unmonitored-run", {"objects": diff[:5]})
    children = 0
    for hs, prefill in ((1, 1000), (4242, 250000))[: params.get("children", 2)]:
        env = dict(os.environ, PYTHONHASHSEED=str(hs))
        try:
            p = subprocess.run([sys.executable, "-c", "from fsmon.workloads.e7 import child_main; child_main()", str(seed),
                                json.dumps(params), str(prefill)], capture_output=True, text=True, timeout=300, env=env)
            d = json.loads(p.stdout.strip().splitlines()[-1])
        except Exception as e:
            v_ = None
            continue
        children += 1
        if d["log"] != digest(log1) or d["n"] != len(log1):
            v("cross_interpreter_log", "fresh-interpreter-other-hash-seed:item-movement-log-differs", {"hashseed": hs, "n": (d["n"], len(log1))})
        if d["stats"] != digest(st1):
            v("cross_interpreter_stats", "fresh-interpreter-other-hash-seed:statistics-differ", {"hashseed": hs})
    clock_back = len(env1.mon_clock_back) + len(env2.mon_clock_back)
    has_random = any(n.get("out_sel") == "RANDOM" or n.get("in_sel") == "RANDOM" for n in spec["nodes"]) or \
        any(isinstance(n.get(k), dict) and n[k].get("kind") == "random" for n in spec["nodes"] for k in ("delay", "ia"))
    has_conv = any(e["type"] in ("conv", "slotconv") for e in spec["edges"])
    return {
        "spec": {"engine": "E7", "seed": seed, "kind": spec["template"] + "/" + spec["variant"], "T": spec["T"]},
        "viol": viol, "viol_count": vc, "counters": {"c19_runs_compared": 3 + children, "c19_child_interpreters": children,
                                                     "c19_log_events": len(log1), "c19_specs_with_random": int(has_random),
                                                     "c19_specs_with_conveyor": int(has_conv)},
        "stats": {}, "nontrivial": {"C19": (has_random or has_conv) and len(log1) >= 200},
        "hash": digest(spec), "crash": None, "sample_ops": [list(e) for e in log1[:25]], "steps": env1.mon_steps + env2.mon_steps,
        "sigs": 0, "max_burst": max(env1.mon_max_burst, env2.mon_max_burst), "clock_back": clock_back,
        "sample_notes": {"log_digest": digest(log1), "stats_digest": digest(st1), "crashed": exc1},
    }


def run_case_params(seed, params, spec=None):
    if params.get("stores"):
        r = run_store_case(seed, params)
    else:
        r = run_case(seed, params)
    r["spec"]["params_in"] = params
    return r


# ----------------------------------------------------------------------------- store histories (E1) replayed
STORE_MODE = {"kinds": ["rprs", "rrs", "filter", "filter_td", "buffer_fifo", "buffer_lifo", "fleet", "bufferstore_fifo", "bufferstore_lifo",
                        "slotbelt", "belt_acc", "belt_nacc"],
              "profiles": ["hoarder", "mixed", "cancel_storm", "prio_storm", "full_store", "burst"]}


def _store_run(seed, params=None, forgetful=1.0):
    from . import e1
    mode = dict(STORE_MODE, forgetful=forgetful)
    for k in ("kinds", "profiles"):
        if params and params.get(k):
            mode[k] = params[k]
    with contextlib.redirect_stdout(open(os.devnull, "w")):
        r = e1.run_case(seed, mode=mode)
    return {"ops": r["hash"], "n": r["nops_done"], "end": r["end"], "crash": (r["crash"] or {}).get("type"),
            "viol": sorted(r["viol_count"])}, r


def store_child_main():
    seed = int(sys.argv[1])
    prefill = int(sys.argv[2])
    params = json.loads(sys.argv[3]) if len(sys.argv) > 3 else None
    junk = [object() for _ in range(prefill)]
    junk2 = [{"a": i} for i in range(prefill // 7)]
    use_repo()
    shim.install()
    d, _ = _store_run(seed, params)
    sys.stdout.write(json.dumps(d) + "\n")
    sys.stdout.flush()
    os._exit(0)


def run_store_case(seed, params):
    """The same client history on one store, three times: twice in this interpreter (first with forgetful clients - used and
    cancelled tokens and retrieved items are freed at once and their addresses re-used -, then with clients that keep every object
    alive, so that no address is ever re-used; a pile of garbage is allocated and freed in between) and, for every fourth case, in a fresh interpreter with another
    hash seed and heap pre-fill.  The clients are deterministic given the seed and what the store answers, so the operation logs
    (every call, every answer, every item handed out) must be identical; a store whose answers depend on object addresses
    (id()-keyed bookkeeping that outlives the object) differs from run to run."""
    use_repo()
    shim.install()
    viol, vc = [], {}

    def v(check, mech, detail):
        key = f"C19|{check}|{mech}"
        vc[key] = vc.get(key, 0) + 1
        if len(viol) < 4:
            viol.append({"property": "C19", "check": check, "mechanism": mech, "detail": detail, "log_tail": []})

    d1, r1 = _store_run(seed, params)
    junk = [[object() for _ in range(50)] for _ in range(400)]
    del junk
    keep = [object() for _ in range(seed % 97)]
    # second run: the clients (and the monitor) keep every token and item alive - same calls, other object lifetimes
    d2, r2 = _store_run(seed, params, forgetful=0.0)
    kind = r1["spec"]["kind"]
    if d1 != d2:
        v("same_interpreter_store_history", f"{kind}:same-client-history-run-twice-in-one-interpreter-differs", {"a": d1, "b": d2})
    children = 0
    if seed % 4 == 0 and params.get("children", 1):
        env = dict(os.environ, PYTHONHASHSEED=str(1 + seed % 5000))
        try:
            p = subprocess.run([sys.executable, "-c", "from fsmon.workloads.e7 import store_child_main; store_child_main()", str(seed),
                                str(1000 + (seed % 7) * 40000), json.dumps(params)], capture_output=True, text=True, timeout=120, env=env)
            d3 = json.loads(p.stdout.strip().splitlines()[-1])
            children = 1
            if d3 != d1:
                v("cross_interpreter_store_history", f"{kind}:same-client-history-in-a-fresh-interpreter-differs", {"a": d1, "b": d3})
        except Exception:
            pass
    reused = r1["counters"].get("e1_token_addresses_reused", 0) + r1["counters"].get("e1_item_addresses_reused", 0)
    return {
        "spec": {"engine": "E7", "seed": seed, "kind": "store/" + kind, "profile": r1["spec"]["profile"]},
        "viol": viol, "viol_count": vc,
        "counters": {"c19_store_histories_compared": 1, "c19_store_runs_compared": 2 + children, "c19_store_child_interpreters": children,
                     "c19_store_addresses_reused": reused, "c19_store_ops": r1["nops_done"]},
        "stats": {}, "nontrivial": {"C19": reused > 0 and r1["nops_done"] >= 40},
        "hash": "s" + r1["hash"], "crash": None, "sample_ops": r1["sample_ops"][:25], "steps": r1["steps"] + r2["steps"],
        "sigs": 0, "max_burst": max(r1["max_burst"], r2["max_burst"]), "clock_back": r1["clock_back"] + r2["clock_back"],
    }
