"""E1p - client histories on PriorityReqStore (put/get *requests* with priorities; C05 only).

Requests are SimPy Put/Get events created by the store itself, so grants are discovered by
polling `triggered` after every client call and after every kernel step; several grants found in
one poll are ordered by the kernel's insertion id of the request events."""
import hashlib
import random

from .. import use_repo
from ..kernel import MonEnv
from ..monitor import Monitor

PRIOS = (-2, -1, 0, 0, 1, 1, 3)


class ReqOracle:
    def __init__(self, env, mon):
        self.env = env
        self.mon = mon
        self.pending = {"put": [], "get": []}   # dicts: ev, prio, t, seq
        self.seq = 0
        self.grants = 0
        self.waited_grants = 0
        self.max_pending = 0
        self.nontrivial = False

    def issue(self, side, ev, prio):
        self.seq += 1
        rec = {"ev": ev, "prio": prio, "t": self.env.now, "seq": self.seq, "side": side}
        self.pending[side].append(rec)
        self.poll(issuing=rec)
        return rec

    def cancel(self, rec):
        if rec in self.pending[rec["side"]]:
            self.pending[rec["side"]].remove(rec)

    def poll(self, issuing=None):
        q = None
        for side in ("put", "get"):
            pend = self.pending[side]
            if len(pend) > self.max_pending:
                self.max_pending = len(pend)
            trig = [r for r in pend if r["ev"].triggered]
            if not trig:
                continue
            if len(trig) > 1:
                if q is None:
                    q = {id(e[3]): e[2] for e in self.env._queue}
                trig.sort(key=lambda r: q.get(id(r["ev"]), -1))
            for r in trig:
                still = [a for a in pend if a is not r]
                key = (r["prio"], r["t"], r["seq"])
                ahead = [a for a in still if (a["prio"], a["t"], a["seq"]) < key]
                self.grants += 1
                self.mon.counters["c05_grants_checked"] += 1
                if r is not issuing:
                    self.waited_grants += 1
                if len(still) >= 2:
                    prios = [a["prio"] for a in still] + [r["prio"]]
                    if len(set(prios)) >= 2 and len(prios) != len(set(prios)):
                        self.nontrivial = True
                if ahead:
                    a = ahead[0]
                    same_t = (a["prio"] == r["prio"] and a["t"] == r["t"])
                    self.mon.violation("C05", "served_out_of_order",
                                       f"prioreq:{side}:granted-while-smaller-key-pending" + (":equal-priority-and-time" if same_t else ""),
                                       {"granted": key, "ahead": (a["prio"], a["t"], a["seq"])})
                pend.remove(r)


def run_case(seed, params=None):
    use_repo()
    from factorysimpy.base.priority_req_store import PriorityReqStore
    rng = random.Random(seed)
    env = MonEnv()
    mon = Monitor(env)
    cap = rng.choice((1, 1, 2, 3))
    st = PriorityReqStore(env, capacity=cap)
    orc = ReqOracle(env, mon)
    mon.step_hooks.append(orc.poll)
    ops = []
    ncl = rng.randint(2, 5)
    nops = rng.randint(10, 40)
    burst = rng.random() < 0.5

    def client(cid, r):
        mine = []
        n = 0
        yield env.timeout(r.choice((0, 0, 0.5)))
        for _ in range(nops):
            live = [m for m in mine if not m["ev"].triggered]
            c = r.random()
            if c < 0.35 and len(live) < 3:
                n += 1
                prio = r.choice(PRIOS)
                ev = st.put(f"c{cid}.{n}", prio)
                mine.append(orc.issue("put", ev, prio))
                ops.append((cid, "put", prio))
            elif c < 0.7 and len(live) < 3:
                prio = r.choice(PRIOS)
                ev = st.get(prio)
                mine.append(orc.issue("get", ev, prio))
                ops.append((cid, "get", prio))
            elif c < 0.8 and live:
                rec = r.choice(live)
                rec["ev"].cancel()
                mine.remove(rec)
                orc.cancel(rec)
                orc.poll()
                ops.append((cid, "cancel", rec["side"]))
            elif c < 0.9 and live:
                yield env.any_of([r.choice(live)["ev"], env.timeout(r.choice((0.5, 1, 2)))])
                ops.append((cid, "wait"))
            else:
                if not burst or r.random() < 0.3:
                    d = r.choice((0, 0.5, 1, 0.25))
                    yield env.timeout(d)
                    ops.append((cid, "sleep", d))

    for c in range(ncl):
        env.process(client(c, random.Random(rng.random())))
    exc = None
    try:
        env.run(until=60)
    except Exception as e:
        exc = e
    crash = None
    if exc is not None:
        crash = {"type": type(exc).__name__, "where": "priority_req_store", "msg": str(exc)[:200]}
    return {
        "spec": {"engine": "E1p", "seed": seed, "kind": "prioreq", "cap": cap, "clients": ncl, "nops": nops},
        "viol": mon.violations, "viol_count": {"|".join(k): v for k, v in mon.viol_count.items()},
        "counters": dict(mon.counters), "stats": {"prioreq_grants": orc.grants, "grants_after_wait": orc.waited_grants},
        "nontrivial": {"C05": orc.nontrivial and orc.waited_grants >= 2},
        "hash": hashlib.sha256(repr(ops).encode()).hexdigest()[:16], "crash": crash, "sample_ops": ops[:40],
        "steps": env.mon_steps, "sigs": 0, "max_burst": env.mon_max_burst, "clock_back": len(env.mon_clock_back),
    }


def run_case_params(seed, params, spec=None):
    r = run_case(seed, params)
    r["spec"]["params_in"] = params
    return r
