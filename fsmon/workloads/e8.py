"""E8 - configuration tables (C20).

 * matrix: every single-stage line  Source -> edge A -> node -> edge B -> Sink  for
   node type x edge type A x edge type B x node blocking x policy class x source blocking (finite, enumerated by index)
 * invalid: the finite table of invalid configurations; each must be rejected with an exception
   (at construction or in the first steps) and no item may pass through the invalid component."""
import hashlib
import itertools
import json
import random

from .. import use_repo, shim
from ..kernel import MonEnv, Livelock
from ..monitor import Monitor
from . import e3

EDGE_TYPES = ("buffer_fifo", "buffer_lifo", "fleet", "conv_acc", "conv_nacc", "slotconv")
NODE_TYPES = ("machine", "splitter", "combiner")
POLICIES = ("FIRST_AVAILABLE", "ROUND_ROBIN", 0)
MATRIX = [c for c in itertools.product(NODE_TYPES, EDGE_TYPES, EDGE_TYPES, (True, False), POLICIES, (True, False), (0, 1))]


def edge_desc(eid, t, order):
    if t.startswith("buffer"):
        return {"id": eid, "type": t, "capacity": 2, "delay": {"kind": "const", "seq": [0 if order == 0 else 0.5]},
                "mode": "FIFO" if t.endswith("fifo") else "LIFO"}
    if t == "fleet":
        return {"id": eid, "type": "fleet", "capacity": 2, "delay": 1, "transit": 0 if order == 0 else 0.5}
    if t.startswith("conv"):
        return {"id": eid, "type": "conv", "L": 3, "speed": 1, "item_length": 1, "acc": 1 if t == "conv_acc" else 0}
    return {"id": eid, "type": "slotconv", "capacity": 3, "delay": 0.5, "acc": 1}


def matrix_spec(index):
    ntype, ea, eb, nblock, pol, sblock, zero = MATRIX[index % len(MATRIX)]
    order = (index // len(MATRIX)) % 3
    d = 0 if zero == 0 else 0.7
    nodes = [{"id": "S0", "type": "source", "flow": "pallet" if ntype in ("splitter", "combiner") else "item", "blocking": sblock,
              "ia": {"kind": "const", "seq": [0.5 if not sblock else (0 if zero == 0 and order == 1 else 0.5)]}, "item_length": 1, "out_sel": pol}]
    if nodes[0]["ia"]["seq"][0] == 0 and not sblock:
        nodes[0]["ia"]["seq"] = [0.5]
    edges = [dict(edge_desc("EA", ea, order), src="S0", dst="N0")]
    if ntype == "machine":
        nodes.append({"id": "N0", "type": "machine", "wc": 2, "delay": {"kind": "const", "seq": [d]}, "blocking": nblock, "setup": 0,
                      "in_sel": pol, "out_sel": pol})
    elif ntype == "splitter":
        nodes.append({"id": "N0", "type": "splitter", "delay": {"kind": "const", "seq": [d]}, "blocking": nblock, "setup": 0,
                      "in_sel": pol, "out_sel": pol})
    else:
        nodes.append({"id": "N0", "type": "combiner", "delay": {"kind": "const", "seq": [d]}, "blocking": nblock, "setup": 0,
                      "recipe": [1, 1], "out_sel": pol})
        nodes.append({"id": "S1", "type": "source", "flow": "item", "blocking": True, "ia": {"kind": "const", "seq": [0.5]},
                      "item_length": 1, "out_sel": "FIRST_AVAILABLE"})
        edges.append(dict(edge_desc("EI", ea, order), src="S1", dst="N0"))
    nodes.append({"id": "K0", "type": "sink"})
    edges.append(dict(edge_desc("EB", eb, order), src="N0", dst="K0"))
    ids = [n["id"] for n in nodes] + [e["id"] for e in edges]
    if order == 1:
        ids = list(reversed(ids))
    elif order == 2:
        ids = [e["id"] for e in edges] + [n["id"] for n in nodes]
    return {"seed": index, "profile": "matrix", "variant": "matrix", "template": f"{ntype}:{ea}>{eb}",
            "cfg": {"node": ntype, "edge_in": ea, "edge_out": eb, "node_blocking": nblock, "policy": pol, "source_blocking": sblock,
                    "zero_delays": zero == 0, "construction_order": order},
            "nodes": nodes, "edges": edges, "construct_order": ids, "connect_order": [e["id"] for e in edges], "T": 30,
            "random_seed": 1, "item_length": 1}


# --------------------------------------------------------------------------------------------- invalid table
def _line(env, **kw):
    """Source -> Buffer -> Machine -> Buffer -> Sink with overrides"""
    from factorysimpy.nodes.source import Source
    from factorysimpy.nodes.machine import Machine
    from factorysimpy.nodes.sink import Sink
    from factorysimpy.edges.buffer import Buffer
    from factorysimpy.edges.fleet import Fleet
    from factorysimpy.edges.slotted_conveyor import ConveyorBelt as SConv
    o = dict(b1=dict(capacity=2, delay=0), b2=dict(capacity=2, delay=0), src=dict(inter_arrival_time=0.5, blocking=True),
             mach=dict(processing_delay=0.5), wire="normal", edge1="buffer")
    for k, v in kw.items():
        if isinstance(v, dict) and isinstance(o.get(k), dict):
            o[k].update(v)
        else:
            o[k] = v
    s = Source(env, "S", **o["src"])
    m = Machine(env, "M", **o["mach"])
    k = Sink(env, "K")
    if o["edge1"] == "buffer":
        b1 = Buffer(env, "B1", **o["b1"])
    elif o["edge1"] == "fleet":
        b1 = Fleet(env, "B1", **o["b1"])
    else:
        b1 = SConv(env, "B1", **o["b1"])
    b2 = Buffer(env, "B2", **o["b2"])
    w = o["wire"]
    if w == "normal":
        b1.connect(s, m)
        b2.connect(m, k)
    elif w == "machine_no_out":
        b1.connect(s, m)
    elif w == "machine_no_in":
        b2.connect(m, k)
    elif w == "source_no_out":
        b2.connect(m, k)
        b3 = Buffer(env, "B3", capacity=2)
        s2 = Source(env, "S2", inter_arrival_time=0.5, blocking=True)
        b3.connect(s2, m)
    elif w == "sink_no_in":
        b1.connect(s, m)
        b3 = Buffer(env, "B3", capacity=2)
        k2 = Sink(env, "K2")
        b3.connect(m, k2)
    elif w == "source_with_in_edge":
        b1.connect(s, m)
        b2.connect(m, k)
        b3 = Buffer(env, "B3", capacity=2)
        b3.connect(m, s)
    elif w == "sink_with_out_edge":
        b1.connect(s, m)
        b2.connect(m, k)
        b3 = Buffer(env, "B3", capacity=2)
        k3 = Sink(env, "K3")
        b3.connect(k, k3)
    return {"S": s, "M": m, "K": k, "B1": b1, "B2": b2}


INVALID = [
    ("buffer-capacity-0", dict(b1=dict(capacity=0)), "B1"),
    ("buffer-capacity-negative", dict(b1=dict(capacity=-1)), "B1"),
    ("buffer-capacity-float", dict(b1=dict(capacity=1.5)), "B1"),
    ("buffer-capacity-string", dict(b1=dict(capacity="2")), "B1"),
    ("fleet-capacity-0", dict(edge1="fleet", b1=dict(capacity=0)), "B1"),
    ("fleet-capacity-negative", dict(edge1="fleet", b1=dict(capacity=-3)), "B1"),
    ("slotted-conveyor-capacity-0", dict(edge1="slot", b1=dict(capacity=0, delay=1, accumulating=1)), "B1"),
    ("buffer-unknown-mode", dict(b1=dict(capacity=2, mode="XYZ")), "B1"),
    ("buffer-mode-lowercase", dict(b1=dict(capacity=2, mode="fifo")), "B1"),
    ("buffer-mode-empty-string", dict(b1=dict(capacity=2, mode="")), "B1"),
    ("buffer-mode-truncated-F", dict(b1=dict(capacity=2, mode="F")), "B1"),
    ("buffer-mode-truncated-LIF", dict(b1=dict(capacity=2, mode="LIF")), "B1"),
    ("buffer-mode-truncated-IFO", dict(b1=dict(capacity=2, mode="IFO")), "B1"),
    ("buffer-mode-concatenated", dict(b1=dict(capacity=2, mode="FIFOLIFO")), "B1"),
    ("buffer-mode-padded", dict(b1=dict(capacity=2, mode="FIFO ")), "B1"),
    ("buffer-mode-none", dict(b1=dict(capacity=2, mode=None)), "B1"),
    ("buffer-mode-list", dict(b1=dict(capacity=2, mode=["FIFO"])), "B1"),
    ("buffer-delay-string", dict(b1=dict(capacity=2, delay="1")), "B1"),
    ("machine-work-capacity-0", dict(mach=dict(processing_delay=0.5, work_capacity=0)), "M"),
    ("fleet-capacity-float", dict(edge1="fleet", b1=dict(capacity=2.5)), "B1"),
    ("buffer-negative-delay", dict(b1=dict(capacity=2, delay=-1)), "B1"),
    ("buffer-negative-delay-callable", dict(b1=dict(capacity=2, delay=lambda: -0.5)), "B1"),
    ("machine-negative-processing-delay", dict(mach=dict(processing_delay=-1)), "M"),
    ("machine-negative-processing-delay-callable", dict(mach=dict(processing_delay=lambda: -2)), "M"),
    ("source-negative-inter-arrival", dict(src=dict(inter_arrival_time=-1, blocking=True)), "S"),
    ("source-nonblocking-zero-inter-arrival", dict(src=dict(inter_arrival_time=0, blocking=False)), "S"),
    ("machine-without-out-edge", dict(wire="machine_no_out"), "M"),
    ("machine-without-in-edge", dict(wire="machine_no_in"), "M"),
    ("source-without-out-edge", dict(wire="source_no_out"), "S"),
    ("sink-without-in-edge", dict(wire="sink_no_in"), "K"),
    ("source-with-in-edge", dict(wire="source_with_in_edge"), "S"),
    ("sink-with-out-edge", dict(wire="sink_with_out_edge"), "K"),
    ("machine-constant-out-index-out-of-range", dict(mach=dict(processing_delay=0.5, out_edge_selection=3)), "M"),
    ("machine-constant-in-index-out-of-range", dict(mach=dict(processing_delay=0.5, in_edge_selection=2)), "M"),
    ("machine-constant-out-index-negative", dict(mach=dict(processing_delay=0.5, out_edge_selection=-1)), "M"),
    ("source-constant-out-index-out-of-range", dict(src=dict(inter_arrival_time=0.5, blocking=True, out_edge_selection=1)), "S"),
    ("machine-unknown-policy-name", dict(mach=dict(processing_delay=0.5, out_edge_selection="NEAREST")), "M"),
]


def run_invalid(index):
    use_repo()
    shim.install()
    name, kw, comp = INVALID[index % len(INVALID)]
    env = MonEnv()
    mon = Monitor(env)
    exc = None
    objs = None
    try:
        objs = _line(env, **kw)
        env.run(until=6)
    except Livelock as e:
        exc = e
    except BaseException as e:
        exc = e
    viol, vc = [], {}
    moved = None
    if exc is None or isinstance(exc, Livelock):
        moved = objs["K"].stats.get("num_item_received") if objs else None
        key = f"C20|invalid_accepted|invalid-configuration-silently-simulated:{name}"
        vc[key] = 1
        viol.append({"property": "C20", "check": "invalid_accepted", "mechanism": f"invalid-configuration-silently-simulated:{name}",
                     "detail": {"config": name, "items_received_by_sink": moved, "end": env.now}, "log_tail": []})
    else:
        # rejected: nothing may have passed through the invalid component
        if objs is not None:
            recv = objs["K"].stats.get("num_item_received", 0)
            if comp in ("B1", "M", "S") and recv:
                key = f"C20|invalid_item_passed|item-moved-through-invalid-component:{name}"
                vc[key] = 1
                viol.append({"property": "C20", "check": "invalid_item_passed", "mechanism": f"item-moved-through-invalid-component:{name}",
                             "detail": {"config": name, "received": recv}, "log_tail": []})
    return {
        "spec": {"engine": "E8", "seed": index, "kind": "invalid:" + name, "table": "invalid"},
        "viol": viol, "viol_count": vc, "counters": {"c20_invalid_configs": 1, "c20_invalid_rejected": int(exc is not None and not isinstance(exc, Livelock))},
        "stats": {}, "nontrivial": {"C20": True}, "hash": "invalid:" + name, "crash": None,
        "sample_ops": [], "sample_notes": {"config": name, "rejected_with": type(exc).__name__ if exc is not None else None,
                                           "at": env.now}, "steps": env.mon_steps, "sigs": 0, "max_burst": env.mon_max_burst, "clock_back": 0,
        "extra": {"exhaustive_scopes": []},
    }


def run_case_params(seed, params, index=None, spec=None):
    if index is None:
        index = (spec or {}).get("index", 0)
    table = params.get("table", "matrix")
    if table == "invalid":
        r = run_invalid(index)
    else:
        sp = matrix_spec(index)
        r = e3.run_case(index, {"profile": "matrix"}, spec=sp)
        r["spec"]["kind"] = "matrix:" + sp["template"]
        r["spec"]["cfg"] = sp["cfg"]
        r["hash"] = "matrix:%d" % index
        r["counters"]["c20_matrix_models"] = 1
        r["nontrivial"] = {"C20": True}
    r["spec"]["params_in"] = params
    r["spec"]["engine"] = "E8"
    return r
