"""E2p - exhaustive priority/arrival-order sweep (C05): every arrival order of every priority sequence of
length <= 4 over {-1, 0, 1}, with no cancellation or one cancellation at each position, on both sides, with
requests issued in one instant or staggered, for every store that takes priorities.  The order oracle is the
ShadowStore's (exact grant instant) resp. the polling ReqOracle for PriorityReqStore."""
import itertools

from .. import use_repo, shim
from ..kernel import MonEnv
from ..monitor import Monitor
from .e1 import Target, Hist, summarize
import random

KINDS = ("rprs", "filter", "fleet", "prioreq")
SEQS = [s for n in range(1, 5) for s in itertools.product((-1, 0, 1), repeat=n)]
CASES = [(k, side, stag, seq, c) for k in KINDS for side in ("put", "get") for stag in (0, 1) for seq in SEQS
         for c in [None] + list(range(len(seq)))]


def run_case_index(index):
    use_repo()
    shim.install()
    from factorysimpy.helper.item import Item
    kind, side, stag, seq, canc = CASES[index % len(CASES)]
    env = MonEnv()
    mon = Monitor(env)
    H = Hist()
    n = len(seq)
    orc = None
    if kind == "prioreq":
        from factorysimpy.base.priority_req_store import PriorityReqStore
        from .e1p import ReqOracle
        st = PriorityReqStore(env, capacity=1)
        orc = ReqOracle(env, mon)
        mon.step_hooks.append(orc.poll)

        def driver():
            if side == "put":
                yield st.put("fill", 0)
            recs = []
            for i, p in enumerate(seq):
                ev = st.put(f"x{i}", p) if side == "put" else st.get(p)
                recs.append(orc.issue(side, ev, p))
                if stag:
                    yield env.timeout(0.5)
            if canc is not None and not recs[canc]["ev"].triggered:
                recs[canc]["ev"].cancel()
                orc.cancel(recs[canc])
                orc.poll()
            yield env.timeout(1)
            for i in range(n + 1):
                if side == "put":
                    yield st.get(0)
                else:
                    yield st.put(f"y{i}", 0)
                yield env.timeout(1)
        env.process(driver())
        env.run(until=40)
        sh = None
    else:
        rng = random.Random(1)
        T = Target(env, mon, kind, 1 if kind != "fleet" else 1, rng)
        if kind == "fleet":
            # a fleet of capacity 1 departs at every put; transit/delay from the seeded rng are fine
            pass
        toks = []

        def driver():
            ni = 0
            if side == "put":
                t0 = T.store.reserve_put(0)
                yield t0
                it = Item("fill")
                it.length = 1
                it.colour = "red"
                T.put(t0, it, rng)
            for i, p in enumerate(seq):
                toks.append(T.store.reserve_put(p) if side == "put" else (T.store.reserve_get(p) if kind != "filter" else T.store.reserve_get(p, None)))
                H.log(side, "reserve", p)
                if stag:
                    yield env.timeout(0.5)
            if canc is not None and not toks[canc].triggered:
                (T.store.reserve_put_cancel if side == "put" else T.store.reserve_get_cancel)(toks[canc])
                H.log("cancel", canc)
            yield env.timeout(1)
            for i in range(n + 2):
                if side == "put":
                    # free the slot: take the item out, then let the granted space request put
                    g = T.store.reserve_get(0) if kind != "filter" else T.store.reserve_get(0, None)
                    yield g | env.timeout(6)
                    if g.triggered:
                        T.get(g)
                    else:
                        T.store.reserve_get_cancel(g)
                    yield env.timeout(0.25)
                    for t in toks:
                        if t.triggered and getattr(t, "_m", None) is not None and t._m.state == "granted":
                            it = Item(f"x{i}")
                            it.length = 1
                            it.colour = "red"
                            T.put(t, it, rng)
                else:
                    t = T.store.reserve_put(0)
                    yield t | env.timeout(6)
                    if t.triggered:
                        it = Item(f"y{i}")
                        it.length = 1
                        it.colour = "red"
                        T.put(t, it, rng)
                    else:
                        T.store.reserve_put_cancel(t)
                    yield env.timeout(6 if kind == "fleet" else 0.25)
                    for g in toks:
                        if g.triggered and getattr(g, "_m", None) is not None and g._m.state == "granted":
                            T.get(g)
                yield env.timeout(0.25)
        env.process(driver())
        exc = None
        try:
            env.run(until=120)
        except Exception as e:
            exc = e
        sh = T.sh
    if sh is not None:
        r = summarize(mon, sh, H, env, exc)
    else:
        r = {"viol": mon.violations, "viol_count": {"|".join(k): v for k, v in mon.viol_count.items()}, "counters": dict(mon.counters),
             "stats": {"grants_after_wait": orc.waited_grants}, "nontrivial": {}, "crash": None, "sample_ops": [], "steps": env.mon_steps,
             "sigs": 0, "max_burst": env.mon_max_burst, "clock_back": len(env.mon_clock_back)}
    waited = r["stats"].get("grants_after_wait", 0)
    r["nontrivial"] = {"C05": waited >= 2 and len(set(seq)) < len(seq) or (waited >= 2 and len(set(seq)) >= 2)}
    r["hash"] = f"e2p:{index % len(CASES)}"
    r["spec"] = {"engine": "E2p", "seed": index, "kind": f"{kind}/{side}", "priorities": list(seq), "cancel": canc, "staggered": bool(stag)}
    r["sample_ops"] = H.ops[:20]
    r.setdefault("extra", {})["exhaustive_scopes"] = []
    r["counters"]["c05_exhaustive_priority_cases"] = 1
    return r


def run_case_params(seed, params, index=None, spec=None):
    if index is None:
        index = (spec or {}).get("index", 0)
    r = run_case_index(index)
    r["spec"]["params_in"] = params
    return r
