"""E3 - random factories (see DESIGN.md section 3).

gen_spec() produces a pure-data model description (JSON-able), build() instantiates it with the
real classes, run_case() executes it under MonEnv + ShadowStores + the factory ledger oracles."""
import hashlib
import json
import random

from .. import use_repo, shim
from ..kernel import MonEnv
from ..monitor import Monitor

DELAYS = (0, 0.25, 0.45, 0.5, 1, 1.3, 2, 0.7, 1 / 3, 0.7071067811865476)
ARRIVALS = (0.5, 1, 1.5, 0.3, 2, 0.7, 0.25)
SETUPS = (0, 0, 0.5, 1.3)


# ----------------------------------------------------------------------------- value sources
class Seq:
    """delay / inter-arrival / selection source described by data; records every consultation"""
    def __init__(self, env, desc, name):
        self.env = env
        self.desc = desc
        self.name = name
        self.log = []          # (now, value)
        self.i = 0
        self.inject = None     # (consultation number, value) for out-of-range injection

    def value(self):
        d = self.desc
        k = d["kind"]
        if k == "random":
            v = random.choice(d["seq"])
        else:
            seq = d["seq"]
            if d.get("finite") is not None and self.i >= d["finite"]:
                v = 1e9
            else:
                v = seq[self.i % len(seq)]
        if self.inject is not None and self.i == self.inject[0]:
            v = self.inject[1]
        self.i += 1
        self.log.append((self.env.now, v))
        return v

    def param(self):
        k = self.desc["kind"]
        if k == "const":
            return self.desc["seq"][0]
        if k in ("callable", "random"):
            return self.value
        def g():
            while True:
                yield self.value()
        return g()


def rnd_delay_desc(rng, lattice=DELAYS, allow_zero=True, const_bias=0.4):
    lat = [x for x in lattice if allow_zero or x > 0]
    r = rng.random()
    if r < const_bias:
        return {"kind": "const", "seq": [rng.choice(lat)]}
    kind = "callable" if r < const_bias + 0.25 else ("gen" if r < const_bias + 0.5 else "random")
    return {"kind": kind, "seq": [rng.choice(lat) for _ in range(rng.randint(1, 4))]}


def rnd_policy(rng, n, allow_fa=True):
    r = rng.random()
    if n == 1:
        opts = ["FIRST_AVAILABLE", "ROUND_ROBIN", "RANDOM", 0, "callable", "gen"]
        if not allow_fa:
            opts.remove("FIRST_AVAILABLE")
        c = rng.choice(opts)
    else:
        opts = ["FIRST_AVAILABLE", "FIRST_AVAILABLE", "ROUND_ROBIN", "ROUND_ROBIN", "RANDOM", "const", "callable", "gen"]
        if not allow_fa:
            opts = [o for o in opts if o != "FIRST_AVAILABLE"]
        c = rng.choice(opts)
        if c == "const":
            c = rng.randrange(n)
    if c in ("callable", "gen"):
        return {"kind": c, "seq": [rng.randrange(n) for _ in range(rng.randint(1, 5))]}
    return c


# ----------------------------------------------------------------------------- spec generation
def rnd_edge(rng, eid, src_t, dst_t, src_blocking, src_out_policy, profile, item_len, congested):
    """edge type compatible with what executes on the tree (core) or anything documented (full)"""
    types = ["buffer_fifo", "buffer_fifo", "buffer_lifo", "fleet", "conv", "conv", "slotconv"]
    if profile == "restricted":
        ok = []
        for t in types:
            base = t.split("_")[0]
            if src_t in ("splitter", "combiner"):
                if not src_blocking and base != "buffer":
                    continue
                if src_blocking and src_out_policy == "FIRST_AVAILABLE" and base != "buffer":
                    continue
            if not src_blocking and base in ("conv", "slotconv"):
                continue
            ok.append(t)
        types = ok or ["buffer_fifo"]
    t = rng.choice(types)
    cap = rng.choice((1, 1, 2, 3, 4)) if congested else rng.choice((1, 2, 3, 4, 6))
    e = {"id": eid, "type": t}
    if t.startswith("buffer"):
        e.update(capacity=cap, delay=rnd_delay_desc(rng, (0, 0, 0.25, 0.5, 1, 0.3, 1 / 3, 0.7071067811865476)), mode="FIFO" if t.endswith("fifo") else "LIFO")
    elif t == "fleet":
        e.update(capacity=cap, delay=rng.choice((0.5, 1, 2)), transit=rng.choice((0, 0.25, 0.5, 1)))
    elif t == "conv":
        n = max(2, cap)
        if (item_len * n) != int(item_len * n):
            n += 1          # integer belt length that is a multiple of the item length (else geometry class 'ragged', D14)
        e.update(L=int(item_len * n), speed=rng.choice((1, 2, 0.5, 0.7)), item_length=item_len, acc=rng.choice((0, 1)))
    else:
        e.update(capacity=max(2, cap), delay=rng.choice((0.5, 1, 0.25)), acc=rng.choice((0, 1)))
    return e


def gen_spec(seed, profile="core", variant=None, templates=None):
    rng = random.Random(seed)
    variant = variant or rng.choice(("plain", "plain", "congested", "starved", "finite", "finite"))
    congested = variant == "congested"
    template = rng.choice([t for t in (templates or ()) if t != "twin"] or ("line", "line", "line", "diamond", "pack", "packunpack", "multisink", "fanin", "splitline", "mesh", "rework", "packpack", "syncfan", "loop"))
    if template in ("syncfan", "loop") and variant in ("finite", "starved"):
        variant = "plain"        # the template is about a saturated chooser
        congested = False
    item_len = rng.choice((1, 1, 0.5))
    nodes, conns = [], []
    force, edge_force = {}, {}

    def src(nid, ftype="item", fast=False):
        blocking = rng.random() < 0.6
        lat = ARRIVALS if not congested else (0.25, 0.3, 0.5)
        if variant == "starved":
            lat = (2, 3, 5)
        ia = rnd_delay_desc(rng, lat, allow_zero=False)
        if blocking and ia["kind"] in ("callable", "gen") and rng.random() < 0.35:
            # a blocking source may have zero inter-arrival times (items created at t = 0, back-to-back items);
            # never all zeros: that is an infinitely fast source
            ia["seq"] = [0] * rng.randint(1, 2) + ia["seq"]
        if variant == "finite":
            if ia["kind"] == "const":
                ia["kind"] = "callable"
            if ia["kind"] == "random":
                ia["kind"] = "gen"
            ia["finite"] = rng.randint(5, 25)
        nodes.append({"id": px + nid, "type": "source", "flow": ftype, "blocking": blocking, "ia": ia, "item_length": item_len,
                      "out_sel": None})

    def machine(nid, allow_zero=True):
        nodes.append({"id": px + nid, "type": "machine", "wc": rng.choice((1, 1, 2, 3)), "delay": rnd_delay_desc(rng, allow_zero=allow_zero),
                      "blocking": rng.random() < 0.6, "setup": rng.choice(SETUPS), "in_sel": None, "out_sel": None})

    def splitter(nid):
        nodes.append({"id": px + nid, "type": "splitter", "delay": rnd_delay_desc(rng), "blocking": rng.random() < 0.6,
                      "setup": rng.choice(SETUPS), "in_sel": None, "out_sel": None,
                      # documented: "if mode is UNPACK, split_quantity is ignored"
                      "splitq": rng.choice((None, None, None, 1, 2, 3))})

    def combiner(nid, recipe):
        nodes.append({"id": px + nid, "type": "combiner", "delay": rnd_delay_desc(rng), "blocking": rng.random() < 0.6,
                      "setup": rng.choice(SETUPS), "recipe": recipe, "out_sel": None})

    def sink(nid):
        nodes.append({"id": px + nid, "type": "sink"})

    def conn(a, b, k=1):
        conns.append((px + a, px + b, k))

    # "twin": two independently parameterised copies of the template in one environment (state that is wrongly
    # shared between two instances of a component class only shows when two instances exist)
    twin = (templates is not None and "twin" in templates) or rng.random() < 0.12
    px = ""
    for px in (("", "T_") if twin else ("",)):
        if template == "line":
            ns = rng.choice((1, 1, 2))
            nm = rng.choice((0, 1, 1, 2, 3))
            for i in range(ns):
                src(f"S{i}")
            for j in range(nm):
                machine(f"M{j}")
            sink("K0")
            first = "M0" if nm else "K0"
            for i in range(ns):
                conn(f"S{i}", first, rng.choice((1, 1, 2)) if first != "K0" or True else 1)
            for j in range(nm - 1):
                conn(f"M{j}", f"M{j+1}", rng.choice((1, 1, 2, 3)))
            if nm:
                conn(f"M{nm-1}", "K0", rng.choice((1, 1, 2)))
        elif template == "splitline":
            # empty pallets straight from a source into a splitter (it just forwards the empty pallet)
            src("SP", "pallet")
            splitter("P0")
            conn("SP", "P0", rng.choice((1, 1, 2)))
            if rng.random() < 0.6:
                machine("M0")
                conn("P0", "M0", rng.choice((1, 2)))
                sink("K0")
                conn("M0", "K0")
            else:
                sink("K0")
                conn("P0", "K0", rng.choice((1, 2)))
        elif template == "fanin":
            for i in range(3):
                src(f"S{i}")
            machine("M0")
            machine("M1")
            sink("K0")
            for i in range(3):
                conn(f"S{i}", "M0")
            conn("M0", "M1", rng.choice((1, 2)))
            conn("M1", "K0")
        elif template == "diamond":
            src("S0")
            for n_ in ("M0", "M1", "M2", "M3"):
                machine(n_)
            sink("K0")
            conn("S0", "M0")
            conn("M0", "M1")
            conn("M0", "M2")
            conn("M1", "M3")
            conn("M2", "M3")
            conn("M3", "K0")
        elif template == "mesh":
            # grid of machines, each feeding its right and its lower neighbour (constructs.mesh builds the same shape):
            # nodes with two in-edges and two out-edges, several routes per item
            rows, cols = rng.choice(((2, 2), (2, 3), (3, 2)))
            src("S0")
            for r_ in range(rows):
                for c_ in range(cols):
                    machine(f"G{r_}{c_}")
            sink("K0")
            for c_ in range(cols):
                conn("S0", f"G0{c_}")
            for r_ in range(rows):
                for c_ in range(cols):
                    if c_ + 1 < cols:
                        conn(f"G{r_}{c_}", f"G{r_}{c_+1}")
                    if r_ + 1 < rows:
                        conn(f"G{r_}{c_}", f"G{r_+1}{c_}")
            for c_ in range(cols):
                conn(f"G{rows-1}{c_}", "K0")
        elif template == "rework":
            # a machine that sends part of its output back to its own input (rework loop): the same item visits the same
            # node several times
            src("S0")
            machine("M0", allow_zero=False)      # a zero-time loop would be an endless loop of the *model*, not of the library
            sink("K0")
            conn("S0", "M0")
            conn("M0", "M0")
            conn("M0", "K0")
            if rng.random() < 0.4:
                machine("M1")
                conn("M0", "M1")
                conn("M1", "K0")
        elif template == "packpack":
            # a packed pallet is the pallet input of a second combiner: pallets that are not empty when they arrive
            r1 = rng.choice(([1, 1], [1, 2], [1, 1, 1]))
            r2 = rng.choice(([1, 1], [1, 2], [1, 3], [1, 1, 2]))
            src("SP", "pallet")
            for i in range(1, len(r1)):
                src(f"SI{i}")
            combiner("C0", r1)
            conn("SP", "C0")
            for i in range(1, len(r1)):
                conn(f"SI{i}", "C0")
            combiner("C1", r2)
            conn("C0", "C1")
            for i in range(1, len(r2)):
                src(f"SJ{i}")
                conn(f"SJ{i}", "C1")
            last = "C1"
            if rng.random() < 0.4:
                splitter("P0")
                conn("C1", "P0")
                last = "P0"
            sink("K0")
            conn(last, "K0")
        elif template == "syncfan":
            # a saturated chooser (source / machine / splitter / combiner) in front of 2-3 one-place buffers whose consumers have
            # commensurate constant delays on a dyadic lattice and different in-policies / worker counts: several out-edges get
            # room in the very same simulated instant, a few kernel events apart and in either index order (what FIRST_AVAILABLE,
            # "the lowest-index edge able to serve at the instant of choice", has to get right; seed R7F_1)
            kind = rng.choice(("combiner", "combiner", "machine", "splitter", "source"))
            nout = rng.choice((2, 2, 3))
            fast = {"kind": "const", "seq": [rng.choice((0.125, 0.25))]}
            cdelay = {"kind": "const", "seq": [rng.choice((0.25, 0.5, 0.5, 0))]}
            chooser_pol = rng.choice(("FIRST_AVAILABLE", "FIRST_AVAILABLE", "FIRST_AVAILABLE", "ROUND_ROBIN", None))
            feed_edge = {"type": "buffer_fifo", "capacity": 3, "delay": {"kind": "const", "seq": [0]}, "mode": "FIFO"}
            if kind == "combiner":
                recipe = rng.choice(([1, 1], [1, 1], [1, 2], [1, 1, 1]))
                src("SP", "pallet")
                force[px + "SP"] = {"blocking": True, "ia": dict(fast)}
                combiner("X0", recipe)
                conn("SP", "X0")
                edge_force[(px + "SP", px + "X0")] = feed_edge
                for i in range(1, len(recipe)):
                    src(f"SI{i}")
                    force[px + f"SI{i}"] = {"blocking": True, "ia": dict(fast)}
                    conn(f"SI{i}", "X0")
                    edge_force[(px + f"SI{i}", px + "X0")] = feed_edge
            elif kind == "source":
                src("X0")
                force[px + "X0"] = {"ia": dict(fast)}
            else:
                src("S0", "pallet" if kind == "splitter" else "item")
                force[px + "S0"] = {"blocking": True, "ia": dict(fast)}
                (splitter if kind == "splitter" else machine)("X0")
                conn("S0", "X0")
                edge_force[(px + "S0", px + "X0")] = feed_edge
            fx = {"blocking": rng.random() < 0.85, "setup": 0}
            if kind != "source":
                fx["delay"] = cdelay
            if kind == "machine":
                fx["wc"] = rng.choice((1, 1, 2))
            if chooser_pol:
                fx["out_sel"] = chooser_pol
            force[px + "X0"] = dict(force.get(px + "X0", {}), **fx)
            for j in range(nout):
                machine(f"M{j}")
                force[px + f"M{j}"] = {"delay": {"kind": "const", "seq": [rng.choice((0.5, 1, 1.5, 2, 3))]}, "wc": rng.choice((1, 1, 1, 2)),
                                       "in_sel": rng.choice(("FIRST_AVAILABLE", "ROUND_ROBIN", "FIRST_AVAILABLE", 0, "RANDOM")),
                                       "out_sel": rng.choice(("FIRST_AVAILABLE", "ROUND_ROBIN", 0)), "setup": 0, "blocking": True}
                conn("X0", f"M{j}")
                edge_force[(px + "X0", px + f"M{j}")] = {"type": "buffer_fifo", "capacity": 1, "delay": {"kind": "const", "seq": [0]}, "mode": "FIFO"}
                sink(f"K{j}")
                conn(f"M{j}", f"K{j}")
                edge_force[(px + f"M{j}", px + f"K{j}")] = {"type": "buffer_fifo", "capacity": 50, "delay": {"kind": "const", "seq": [0]}, "mode": "FIFO"}
        elif template == "loop":
            # closed loop: a finite population of pallets and items circulates combiner -> splitter -> back to the combiner's feeds
            # (the same pallet is packed again and again, with items it has carried before); nothing ever reaches a sink
            k = rng.choice((1, 2, 2, 3))
            npal = rng.choice((1, 2, 3))
            nit = rng.choice((k, 2 * k, 2 * k + 1, 3 * k))
            src("SP", "pallet")
            src("SI")
            force[px + "SP"] = {"blocking": True, "ia": {"kind": "callable", "seq": [rng.choice((0.25, 0.5, 1))], "finite": npal}}
            force[px + "SI"] = {"blocking": True, "ia": {"kind": "callable", "seq": [rng.choice((0.25, 0.5))], "finite": nit}}
            machine("MP")
            machine("MI")
            for n_ in ("MP", "MI"):
                force[px + n_] = {"blocking": True, "in_sel": rng.choice(("FIRST_AVAILABLE", "FIRST_AVAILABLE", "ROUND_ROBIN")) if n_ == "MI" else "FIRST_AVAILABLE",
                                  "out_sel": "FIRST_AVAILABLE", "wc": rng.choice((1, 2))}
            combiner("C0", [1, k])
            splitter("P0")
            # every lap passes the combiner: its delay is never zero (a zero-time lap would be an endless loop of the *model*)
            force[px + "C0"] = {"blocking": True, "out_sel": "FIRST_AVAILABLE", "delay": rnd_delay_desc(rng, allow_zero=False)}
            # the splitter sends the k items back to the item feed and then the emptied pallet back to the pallet feed
            force[px + "P0"] = {"blocking": True, "in_sel": "FIRST_AVAILABLE", "out_sel": {"kind": rng.choice(("gen", "callable")), "seq": [0] * k + [1]}}
            conn("SP", "MP")
            conn("SI", "MI")
            conn("MP", "C0")
            conn("MI", "C0")
            conn("C0", "P0")
            conn("P0", "MI")
            conn("P0", "MP")
            roomy = lambda: {"type": rng.choice(("buffer_fifo", "buffer_fifo", "buffer_lifo")), "capacity": npal + nit + 1,
                             "delay": {"kind": "const", "seq": [rng.choice((0, 0, 0.25, 0.5))]}, "mode": "FIFO"}
            for a_, b_ in (("SP", "MP"), ("SI", "MI"), ("MP", "C0"), ("MI", "C0"), ("C0", "P0"), ("P0", "MI"), ("P0", "MP")):
                e_ = roomy()
                e_["mode"] = "FIFO" if e_["type"].endswith("fifo") else "LIFO"
                edge_force[(px + a_, px + b_)] = e_
        elif template == "multisink":
            src("S0")
            machine("M0")
            sink("K0")
            sink("K1")
            conn("S0", "M0", rng.choice((1, 2)))
            conn("M0", "K0")
            conn("M0", "K1")
        else:  # pack / packunpack
            recipe = rng.choice(([1, 1], [1, 2], [1, 3, 1], [1, 1, 2], [1, 2], [1, 0, 2], [1, 3, 0], [1, 1, 1, 1], [1, 2, 0, 1], [1, 0, 1, 2]))
            src("SP", "pallet")
            for i in range(1, len(recipe)):
                src(f"SI{i}")
            combiner("C0", recipe)
            conn("SP", "C0")
            for i in range(1, len(recipe)):
                conn(f"SI{i}", "C0")
            last = "C0"
            if rng.random() < 0.4:
                machine("M0")
                conn(last, "M0")
                last = "M0"
            if template == "packunpack":
                splitter("P0")
                conn(last, "P0")
                last = "P0"
                if rng.random() < 0.5:
                    machine("M9")
                    conn("P0", "M9")
                    sink("K1")
                    conn("M9", "K1")
            sink("K0")
            if last == "C0" and rng.random() < 0.5:
                # the combiner itself chooses between two busy consumers (two out-edges that fill up and free again)
                machine("M7")
                machine("M8")
                conn("C0", "M7")
                conn("C0", "M8")
                conn("M7", "K0")
                conn("M8", "K0")
                if rng.random() < 0.6:
                    # commensurate consumers behind one-place buffers: both out-edges regularly free up in the same instant
                    force[px + "C0"] = {"blocking": True, "out_sel": "FIRST_AVAILABLE", "delay": {"kind": "const", "seq": [rng.choice((0.25, 0.5))]}}
                    # different in-policies = a different number of event hops between "worker free" and "next pull": the two
                    # out-edges of the combiner get room in the same instant but one or two kernel events apart
                    pols = rng.choice((("FIRST_AVAILABLE", "ROUND_ROBIN"), ("ROUND_ROBIN", "FIRST_AVAILABLE"), ("FIRST_AVAILABLE", "FIRST_AVAILABLE")))
                    force[px + "M7"] = {"delay": {"kind": "const", "seq": [rng.choice((1, 1.5, 2))]}, "wc": 1, "in_sel": pols[0], "setup": 0}
                    force[px + "M8"] = {"delay": {"kind": "const", "seq": [rng.choice((0.5, 1, 1.5))]}, "wc": 1, "in_sel": pols[1], "setup": 0}
                    for b_ in ("M7", "M8"):
                        edge_force[(px + "C0", px + b_)] = {"type": "buffer_fifo", "capacity": 1, "delay": {"kind": "const", "seq": [0]}, "mode": "FIFO"}
            else:
                conn(last, "K0", rng.choice((1, 1, 2)))
    # degrees
    byid = {n["id"]: n for n in nodes}
    outdeg = {n["id"]: 0 for n in nodes}
    indeg = {n["id"]: 0 for n in nodes}
    for a, b, k in conns:
        outdeg[a] += k
        indeg[b] += k
    for n in nodes:
        if n["type"] in ("source", "machine", "splitter", "combiner"):
            n["out_sel"] = rnd_policy(rng, outdeg[n["id"]])
        if n["type"] in ("machine", "splitter"):
            n["in_sel"] = rnd_policy(rng, indeg[n["id"]])
            if variant == "finite" and indeg[n["id"]] > 1 and rng.random() < 0.7:
                n["in_sel"] = "FIRST_AVAILABLE"
    for n in nodes:
        if n["id"] in force:
            n.update(force[n["id"]])
    edges = []
    k_id = 0
    for a, b, k in conns:
        for _ in range(k):
            sa, sb = byid[a], byid[b]
            e = rnd_edge(rng, f"E{k_id}", sa["type"], sb["type"], sa.get("blocking", True), sa.get("out_sel"),
                         profile, item_len, congested)
            if profile == "restricted" and sb["type"] == "sink" and e["type"] in ("conv", "slotconv"):
                e = {"id": e["id"], "type": "buffer_fifo", "capacity": rng.choice((1, 2, 3)),
                     "delay": rnd_delay_desc(rng, (0, 0.5)), "mode": "FIFO"}
            if (a, b) in edge_force:
                e = dict(edge_force[(a, b)], id=e["id"])
            e["src"], e["dst"] = a, b
            edges.append(e)
            k_id += 1
    order = [n["id"] for n in nodes] + [e["id"] for e in edges]
    rng.shuffle(order)
    corder = [e["id"] for e in edges]
    if rng.random() < 0.5:
        # connection order decides the in/out edge indices; shuffle it (within the combiner's typed slots it must stay)
        if not any(n["type"] == "combiner" for n in nodes):
            rng.shuffle(corder)
    inject = None
    if variant == "inject" or (variant == "plain" and rng.random() < 0.15):
        cands = []
        for n in nodes:
            for side, key in (("out", "out_sel"), ("in", "in_sel")):
                if isinstance(n.get(key), dict):
                    deg = outdeg[n["id"]] if side == "out" else indeg[n["id"]]
                    cands.append((n["id"] + "." + side, deg))
        if cands:
            name, deg = rng.choice(cands)
            inject = {"seq": name, "at": rng.randint(0, 6), "value": rng.choice((-1, deg, deg + 2, -deg))}
    T = rng.choice((17.77, 30, 41.3, 60, 25.5))
    if rng.random() < 0.08:
        T = rng.choice((0.1, 0.6, 1.0, 1.3, 2.05))
    if variant == "finite":
        T = rng.choice((300, 400.5))
    pieces, mid_fin = [], False
    rngp = random.Random(seed ^ 0xA11CE)
    if rngp.random() < 0.2:
        for _ in range(rngp.randint(1, 3)):
            # cut points: arbitrary instants and instants on the event lattice (a run that stops exactly at an event time)
            c = rngp.choice((round(rngp.uniform(0, T), 3), rngp.randint(0, int(T)) * 0.5, float(rngp.randint(0, int(T)))))
            if 0 < c < T:
                pieces.append(c)
        pieces = sorted(set(pieces))
        mid_fin = rngp.random() < 0.6
    return {"pieces": pieces, "mid_finalise": mid_fin,
            "seed": seed, "profile": profile, "variant": variant, "template": template, "nodes": nodes, "edges": edges,
            "construct_order": order, "connect_order": corder, "T": T, "random_seed": rng.randrange(10 ** 6), "item_length": item_len,
            "inject": inject, "twin": twin,
            # edges handed to the node constructors (in_edges=[...], out_edges=[...], as tests/test_machine.py does) and then connected
            "ctor_edges": rng.random() < 0.15}


# ----------------------------------------------------------------------------- build
class Model:
    pass


def build(spec, env):
    use_repo()
    from factorysimpy.nodes.source import Source
    from factorysimpy.nodes.machine import Machine
    from factorysimpy.nodes.splitter import Splitter
    from factorysimpy.nodes.combiner import Combiner
    from factorysimpy.nodes.sink import Sink
    from factorysimpy.edges.buffer import Buffer
    from factorysimpy.edges.fleet import Fleet
    from factorysimpy.edges.continuous_conveyor import ConveyorBelt as CConv
    from factorysimpy.edges.slotted_conveyor import ConveyorBelt as SConv
    m = Model()
    m.spec = spec
    m.env = env
    m.nodes, m.edges, m.seqs = {}, {}, {}
    random.seed(spec["random_seed"])
    ndesc = {n["id"]: n for n in spec["nodes"]}
    edesc = {e["id"]: e for e in spec["edges"]}

    inj = spec.get("inject")

    def seq(desc, name):
        s = Seq(env, desc, name)
        if inj and inj["seq"] == name:
            s.inject = (inj["at"], inj["value"])
        m.seqs[name] = s
        return s

    def policy(p, name):
        if isinstance(p, dict):
            return seq(p, name).param()
        return p

    ctor = bool(spec.get("ctor_edges"))
    order = spec["construct_order"]
    ins, outs = {}, {}
    if ctor:
        order = [o for o in order if o in edesc] + [o for o in order if o in ndesc]
        for eid in spec["connect_order"]:
            outs.setdefault(edesc[eid]["src"], []).append(eid)
            ins.setdefault(edesc[eid]["dst"], []).append(eid)

    def ekw(oid, with_out=True):
        if not ctor:
            return {}
        kw = {"in_edges": [m.edges[e] for e in ins.get(oid, [])] or None}
        if with_out:
            kw["out_edges"] = [m.edges[e] for e in outs.get(oid, [])] or None
        return kw

    for oid in order:
        if oid in ndesc:
            n = ndesc[oid]
            t = n["type"]
            if t == "source":
                obj = Source(env, oid, item_length=n["item_length"], flow_item_type=n["flow"],
                             inter_arrival_time=seq(n["ia"], oid + ".ia").param(), blocking=n["blocking"],
                             out_edge_selection=policy(n["out_sel"], oid + ".out"), **ekw(oid))
            elif t == "machine":
                obj = Machine(env, oid, node_setup_time=n["setup"], work_capacity=n["wc"],
                              processing_delay=seq(n["delay"], oid + ".delay").param(), blocking=n["blocking"],
                              in_edge_selection=policy(n["in_sel"], oid + ".in"),
                              out_edge_selection=policy(n["out_sel"], oid + ".out"), **ekw(oid))
            elif t == "splitter":
                obj = Splitter(env, oid, node_setup_time=n["setup"], processing_delay=seq(n["delay"], oid + ".delay").param(),
                               blocking=n["blocking"], in_edge_selection=policy(n["in_sel"], oid + ".in"),
                               out_edge_selection=policy(n["out_sel"], oid + ".out"),
                               **({"mode": "UNPACK", "split_quantity": n["splitq"]} if n.get("splitq") is not None else {}), **ekw(oid))
            elif t == "combiner":
                obj = Combiner(env, oid, node_setup_time=n["setup"], target_quantity_of_each_item=list(n["recipe"]),
                               processing_delay=seq(n["delay"], oid + ".delay").param(), blocking=n["blocking"],
                               out_edge_selection=policy(n["out_sel"], oid + ".out"), **ekw(oid))
            else:
                obj = Sink(env, oid, **ekw(oid, with_out=False))
            obj._spec = n
            m.nodes[oid] = obj
        else:
            e = edesc[oid]
            t = e["type"]
            if t.startswith("buffer"):
                obj = Buffer(env, oid, capacity=e["capacity"], delay=seq(e["delay"], oid + ".delay").param(), mode=e["mode"])
            elif t == "fleet":
                obj = Fleet(env, oid, capacity=e["capacity"], delay=e["delay"], transit_delay=e["transit"])
            elif t == "conv":
                obj = CConv(env, oid, conveyor_length=e["L"], speed=e["speed"], item_length=e["item_length"], accumulating=e["acc"])
            else:
                obj = SConv(env, oid, capacity=e["capacity"], delay=e["delay"], accumulating=e["acc"])
            obj._spec = e
            m.edges[oid] = obj
    # the order in which a node's edges were declared: the lists given to its constructor, otherwise the order of the connect calls
    m.declared_out, m.declared_in = {}, {}
    for eid in spec["connect_order"]:
        m.declared_out.setdefault(edesc[eid]["src"], []).append(eid)
        m.declared_in.setdefault(edesc[eid]["dst"], []).append(eid)
    corder = list(spec["connect_order"])
    if ctor:
        # the constructor lists fix the edge order; the connect calls may then come in any order
        random.Random(spec.get("seed", 0) ^ 0xC0FFEE).shuffle(corder)
    for eid in corder:
        e = edesc[eid]
        m.edges[eid].connect(m.nodes[e["src"]], m.nodes[e["dst"]])
    return m


def store_of(edge):
    return getattr(edge, "inbuiltstore", None) or getattr(edge, "belt")


def run_case(seed, params=None, spec=None):
    use_repo()
    shim.install()
    params = params or {}
    if spec is None or "nodes" not in spec:
        spec = gen_spec(seed, params.get("profile", "core"), params.get("variant"), params.get("templates"))
    env = MonEnv()
    mon = Monitor(env)
    from ..oracles import factory
    exc = None
    built = False
    fo = None
    try:
        m = build(spec, env)
        built = True
        fo = factory.FactoryOracle(mon, m, params)
        # a run in several pieces (env.run(until=a); env.run(until=b); ...), optionally with the edge statistics read out
        # (finalised) after each piece, as a script that reports intermediate results does
        for t_piece in spec.get("pieces") or ():
            env.run(until=t_piece)
            mon.counters["e3_run_pieces"] += 1
            if spec.get("mid_finalise") and not params.get("no_mid_finalise"):
                fo._finish_edge_stats(t_piece)
                mon.counters["c18_intermediate_finalisations"] += 1
        env.run(until=spec["T"])
    except Exception as e:
        exc = e
    res = {"spec": {"engine": "E3", "seed": seed, "variant": spec["variant"], "template": spec["template"],
                    "kind": spec["template"] + "/" + spec["variant"],
                    "nodes": [(n["id"], n["type"]) for n in spec["nodes"]],
                    "edges": [(e["id"], e["type"], e["src"], e["dst"]) for e in spec["edges"]], "T": spec["T"]}}
    injected = False
    inj = spec.get("inject")
    if inj and built:
        sq = m.seqs.get(inj["seq"])
        injected = sq is not None and sq.i > inj["at"]
    if fo is not None:
        fo.injected = injected
        fo.finish(exc)
    if inj and injected:
        mon.counters["c15_out_of_range_injections"] += 1
        if exc is None:
            mon.violation("C15", "out_of_range_index_accepted", f"{inj['seq'].split('.')[1]}-selector-returned-out-of-range-index-and-the-run-went-on",
                          {"selector": inj["seq"], "value": inj["value"], "consultation": inj["at"]})
        else:
            res["expected_crash"] = True
    crash = None
    if exc is not None:
        import traceback
        root = exc
        while root.__cause__ is not None:
            root = root.__cause__
        tb = traceback.extract_tb(root.__traceback__)
        fr = [f for f in tb if "/factorysimpy/" in f.filename]
        where = f"{fr[-1].filename.split('/factorysimpy/')[-1]}:{fr[-1].name}" if fr else ("build" if not built else "harness:" + (tb[-1].name if tb else "?"))
        crash = {"type": type(root).__name__, "where": where, "msg": str(root)[:200], "t": env.now}
    stats = {}
    for sh in mon.shadow_list:
        for k, v in sh.stats.items():
            stats[k] = stats.get(k, 0) + v
    res.update({
        "viol": mon.violations, "viol_count": {"|".join(k): v for k, v in mon.viol_count.items()},
        "counters": dict(mon.counters), "stats": stats,
        "nontrivial": fo.nontrivial() if fo is not None else {},
        "hash": hashlib.sha256(json.dumps(spec, sort_keys=True, default=repr).encode()).hexdigest()[:16],
        "crash": crash, "sample_ops": (fo.sample() if fo is not None else []), "steps": env.mon_steps,
        "sigs": len(mon.sigs), "max_burst": env.mon_max_burst, "clock_back": len(env.mon_clock_back), "end": env.now,
    })
    return res


def run_case_params(seed, params, spec=None):
    r = run_case(seed, params)
    r["spec"]["params_in"] = params
    return r
