"""E5 - scripted fleet clients: loading scripts aimed at trip boundaries (during a trip, in the
departure instant, capacity reached by the last load), eager and slow consumers."""
import hashlib
import random

from .. import use_repo, shim
from ..kernel import MonEnv
from ..monitor import Monitor
from ..oracles.fleet import FleetOracle
from .e1 import Stub, summarize, Hist


def run_case(seed, params=None):
    use_repo()
    shim.install()
    from factorysimpy.edges.fleet import Fleet
    from factorysimpy.helper.item import Item
    rng = random.Random(seed)
    cap = rng.choice((1, 2, 2, 3, 4, 5))
    D = rng.choice((0.5, 1, 2, 3))
    tr = rng.choice((0, 0.25, 0.5, 1, 1.5))
    env = MonEnv()
    mon = Monitor(env)
    fl = Fleet(env, "F", capacity=cap, delay=D, transit_delay=tr)
    fl.src_node, fl.dest_node = Stub("s"), Stub("d")
    sh = mon.label(fl.inbuiltstore, "fleet", fl)
    orc = FleetOracle(mon, sh, cap, D, tr)
    H = Hist()
    nprod = rng.choice((1, 1, 2))
    nitems = rng.randint(8, 30)
    gaps = [0, 0, D, D / 2, 2 * tr, tr, D + 2 * tr, 0.25, 0.1, 1, D - 0.25 if D > 0.25 else 0.25, 3 * D]
    style = rng.choice(("eager", "eager", "slow", "bursty", "stall"))
    recirc = rng.random() < 0.3

    def producer(pid, n):
        yield env.timeout(rng.choice((0, 0, 0.25, D, D / 2)))
        for i in range(n):
            tok = fl.reserve_put()
            yield tok
            it = Item(f"p{pid}.{i}")
            fl.put(tok, it)
            H.log(pid, "put", it.id, env.now)
            g = rng.choice(gaps)
            if g > 0:
                yield env.timeout(g)

    def consumer():
        k = 0
        while True:
            tok = fl.reserve_get()
            yield tok
            if style == "slow":
                yield env.timeout(rng.choice((0.5, 1, 2)))
            elif style == "stall" and k % 5 == 4:
                yield env.timeout(rng.choice((3, 5, 8)))
            it = fl.get(tok)
            H.log("c", "get", it.id, env.now)
            k += 1
            if recirc and rng.random() < 0.5:
                # circulating carrier: the same object is loaded again into the same fleet
                yield env.timeout(rng.choice((0, 0.25, 0.5, D)))
                t2 = fl.reserve_put()
                yield t2
                fl.put(t2, it)
                H.log("c", "reput", it.id, env.now)
            if style == "bursty" and k % 3 == 0:
                yield env.timeout(rng.choice((1, 2, 4)))

    for p in range(nprod):
        env.process(producer(p, nitems // nprod))
    env.process(consumer())
    exc = None
    horizon = 200
    try:
        env.run(until=horizon)
    except Exception as e:
        exc = e
    orc.finish(env.now)
    res = summarize(mon, sh, H, env, exc)
    res["nontrivial"]["C14"] = bool(getattr(orc, "nontrivial", False))
    res["spec"] = {"engine": "E5", "seed": seed, "kind": "fleet", "cap": cap, "D": D, "transit": tr, "producers": nprod,
                   "items": nitems, "consumer": style, "recirculating": recirc}
    return res


def run_case_params(seed, params, spec=None):
    r = run_case(seed, params)
    r["spec"]["params_in"] = params
    return r
