"""E1 - hostile client histories on one store (see DESIGN.md section 3).

2-5 client processes share one store of small capacity and draw their next operation at run time
from the operations enabled by what a client can legitimately know (token.triggered)."""
import hashlib
import random

from .. import use_repo
from ..kernel import MonEnv
from ..monitor import Monitor
from .. import shim

SLEEPS = (0, 0, 0.25, 0.5, 1, 1.5, 0.3, 0.7)
PRIOS = (-2, -1, 0, 0, 1, 1, 3)
COLOURS = ("red", "blue", "green")
KINDS = ("rprs", "rrs", "filter", "filter_td", "buffer_fifo", "buffer_lifo", "fleet",
         "bufferstore_fifo", "bufferstore_lifo", "slotbelt", "belt_acc", "belt_nacc")
PROFILES = ("mixed", "full_store", "hoarder", "burst", "prio_storm", "slow_consumer")


class Stub:
    """stand-in for the nodes an edge must be connected to (initial_test only checks 'is not None')."""
    def __init__(self, id):
        self.id = id
        self.in_edges = None
        self.out_edges = None


class DelaySource:
    """delay parameter that records every value it hands out"""
    def __init__(self, rng, style, lattice):
        self.values = []
        self.rng = rng
        self.style = style
        self.lattice = lattice
        self.const = rng.choice(lattice)
        self._cyc = [rng.choice(lattice) for _ in range(rng.randint(1, 4))]
        self._i = 0

    def draw(self):
        if self.style == "callable":
            v = self.rng.choice(self.lattice)
        else:
            v = self._cyc[self._i % len(self._cyc)]
            self._i += 1
        self.values.append(v)
        return v

    def param(self):
        if self.style == "const":
            return self.const
        if self.style == "callable":
            return self.draw
        def gen():
            while True:
                yield self.draw()
        return gen()


def make_filter(colour):
    def f(item):
        return getattr(item, "colour", None) == colour
    f.user = True
    f.colour = colour
    return f


class Target:
    def __init__(self, env, mon, kind, cap, rng):
        use_repo()
        self.kind = kind
        self.env = env
        self.edge = None
        self.delay_src = None
        self.prio = False
        self.filters = False
        self.raw_tuple = False
        if kind in ("rprs", "rrs", "filter", "filter_td") and random.Random(repr((kind, cap, rng.random()))).random() < 0.25:
            cap = float(cap)      # the documented default capacity is float('inf'): a finite capacity may be a float as well (2.0)
        self.params = {"cap": cap}
        if kind == "rprs":
            from factorysimpy.base.reservable_priority_req_store import ReservablePriorityReqStore as S
            self.store = S(env, capacity=cap)
            self.prio = True
        elif kind == "rrs":
            from factorysimpy.base.reservable_req_store import ReservableReqStore as S
            self.store = S(env, capacity=cap)
        elif kind in ("filter", "filter_td"):
            from factorysimpy.base.reservable_priority_req_filter_store import ReservablePriorityReqFilterStore as S
            td = 0 if kind == "filter" else rng.choice((0.5, 1, 0.3))
            self.store = S(env, capacity=cap, trigger_delay=td)
            self.prio = True
            self.filters = True
            self.params["trigger_delay"] = td
        elif kind in ("buffer_fifo", "buffer_lifo"):
            from factorysimpy.edges.buffer import Buffer
            style = rng.choice(("const", "callable", "generator"))
            # the last two lattices are not representable with a few decimals (1/3, 2/3, sqrt(2)/2, pi/10 ...)
            lattice = rng.choice(((0, 0.5, 1), (0, 0, 0.25, 1.5), (1,), (0,), (0.3, 0.7, 1.3), (2, 0.5),
                                  (1 / 3, 2 / 3, 0.123456789), (0.7071067811865476, 0.3141592653589793, 1.000044)))
            self.delay_src = DelaySource(random.Random(rng.random()), style, lattice)
            mode = "FIFO" if kind.endswith("fifo") else "LIFO"
            self.edge = Buffer(env, "B", capacity=cap, delay=self.delay_src.param(), mode=mode)
            self.store = self.edge.inbuiltstore
            self.params.update(style=style, lattice=lattice, mode=mode)
        elif kind in ("bufferstore_fifo", "bufferstore_lifo"):
            from factorysimpy.base.buffer_store import BufferStore
            mode = "FIFO" if kind.endswith("fifo") else "LIFO"
            self.store = BufferStore(env, capacity=cap, mode=mode)
            self.raw_tuple = True
            self.lattice = rng.choice(((0, 0.5, 1), (0,), (1,), (0.3, 0.7), (0, 2)))
            self.params.update(lattice=self.lattice, mode=mode)
        elif kind == "fleet":
            from factorysimpy.edges.fleet import Fleet
            d = rng.choice((0.5, 1, 2, 3))
            tr = rng.choice((0, 0.25, 0.5, 1, 1.5))
            self.edge = Fleet(env, "F", capacity=cap, delay=d, transit_delay=tr)
            self.store = self.edge.inbuiltstore
            self.prio = True
            self.params.update(delay=d, transit=tr)
        elif kind == "slotbelt":
            from factorysimpy.edges.slotted_conveyor import ConveyorBelt
            d = rng.choice((0.5, 1, 0.3))
            acc = rng.choice((0, 1))
            self.edge = ConveyorBelt(env, "SC", capacity=max(cap, 2), delay=d, accumulating=acc)
            self.store = self.edge.belt
            self.prio = True
            self.params.update(delay=d, acc=acc, cap=max(cap, 2))
        elif kind in ("belt_acc", "belt_nacc"):
            from factorysimpy.edges.continuous_conveyor import ConveyorBelt
            il = rng.choice((0.5, 1, 0.25))
            L = il * max(cap, 2)
            if L != int(L):
                L = float(int(L) + 1)
            L = int(L)
            sp = rng.choice((1, 2, 0.5))
            acc = 1 if kind == "belt_acc" else 0
            self.edge = ConveyorBelt(env, "CC", conveyor_length=L, speed=sp, item_length=il, accumulating=acc)
            self.store = self.edge.belt
            self.item_length = il
            self.params.update(L=L, item_len=il, speed=sp, acc=acc, cap=self.edge.capacity)
        else:
            raise ValueError(kind)
        if self.edge is not None:
            self.edge.src_node = Stub("src")
            self.edge.dest_node = Stub("dst")
        self.sh = mon.label(self.store, kind, self.edge)
        self.cap = self.store.capacity
        self.conv_oracle = None
        if kind in ("slotbelt", "belt_acc", "belt_nacc"):
            from ..oracles.conveyor import ConveyorOracle
            pr = self.params
            if kind == "slotbelt":
                self.conv_oracle = ConveyorOracle(mon, self.sh, pr["cap"] * pr["delay"], pr["delay"], pr["cap"], pr["acc"], True)
            else:
                self.conv_oracle = ConveyorOracle(mon, self.sh, pr["L"] / pr["speed"], pr["item_len"] / pr["speed"], pr["cap"], pr["acc"], False)
        self.fleet_oracle = None
        if kind == "fleet":
            from ..oracles.fleet import FleetOracle
            self.fleet_oracle = FleetOracle(mon, self.sh, self.cap, self.params["delay"], self.params["transit"])

    # operations as a client would issue them
    def reserve_put(self, prio):
        if self.prio:
            return self.store.reserve_put(prio) if self.edge is None or prio != 0 else self.edge.reserve_put()
        return (self.edge or self.store).reserve_put()

    def reserve_get(self, prio, filt=None):
        if self.filters:
            return self.store.reserve_get(prio, filt)
        if self.prio:
            return self.store.reserve_get(prio) if self.edge is None or prio != 0 else self.edge.reserve_get()
        return (self.edge or self.store).reserve_get()

    def put(self, tok, item, rng):
        if self.raw_tuple:
            return self.store.put(tok, (item, rng.choice(self.lattice)))
        return (self.edge or self.store).put(tok, item)

    def get(self, tok):
        return (self.edge or self.store).get(tok)

    def cancel_put(self, tok):
        return (self.edge if self.edge is not None and hasattr(self.edge, "reserve_put_cancel") else self.store).reserve_put_cancel(tok)

    def cancel_get(self, tok):
        return (self.edge if self.edge is not None and hasattr(self.edge, "reserve_get_cancel") else self.store).reserve_get_cancel(tok)


class Hist:
    def __init__(self):
        self.ops = []
        self.tokens = []       # every live token with owner, for "other process's token"
        self.used = []
        self.cancelled = []
        self.n_items = 0
        self.flags = set()
        self.falsy_items = False
        self.payload = None
        self.forgetful = False
        self.script_ops = 0
        self.dead_addrs = set()      # addresses of tokens that have been freed (forgetful histories)
        self.addr_reused = 0
        self.probe = {"put": 0, "get": 0, "put_nontrivial": 0, "get_nontrivial": 0}

    def log(self, *a):
        self.ops.append(a)

    def prune(self):
        """forgetful histories: forget tokens that are used or cancelled"""
        keep = []
        for ent in self.tokens:
            m = getattr(ent[0], "_m", None)
            if m is not None and m.state in ("used", "cancelled"):
                self.dead_addrs.add(id(ent[0]))
            else:
                keep.append(ent)
        self.tokens[:] = keep

    def born(self, tok):
        if id(tok) in self.dead_addrs:
            self.dead_addrs.discard(id(tok))
            self.addr_reused += 1


def weights(profile):
    w = dict(rp=4, rg=4, put=6, get=6, cancel_pput=1, cancel_gput=1, cancel_pget=1, cancel_gget=1,
             wait_put=3, wait_get=3, sleep=3, hold=1, max_put=2, max_get=2)
    if profile == "full_store":
        w.update(rp=7, rg=2, cancel_gput=3, cancel_pput=2, max_put=3, get=3)
    elif profile == "hoarder":
        w.update(rg=8, get=3, cancel_gget=5, max_get=4, put=8, rp=6, hold=3)
    elif profile == "burst":
        w.update(sleep=0.3, wait_put=1, wait_get=1, hold=0)
    elif profile == "prio_storm":
        w.update(rp=7, rg=7, max_put=4, max_get=4, cancel_pput=2, cancel_pget=2, cancel_gput=2, cancel_gget=2, put=3, get=3)
    elif profile == "cancel_storm":
        w.update(rg=9, get=4, cancel_gget=9, cancel_pget=1, max_get=4, put=9, rp=7, max_put=3, sleep=2, wait_get=2, wait_put=1)
    elif profile == "slow_consumer":
        w.update(rg=2, get=2, sleep=5, rp=6, put=8)
    return w


_TRAY = {}


_EQV = {}


def equal_value_class(Item):
    c = _EQV.get(Item)
    if c is None:
        class Part(Item):
            def __eq__(self, other):
                return isinstance(other, Part) and other.id == self.id

            def __hash__(self):
                return hash(self.id)
        c = _EQV[Item] = Part
    return c


def empty_tray_class(Item):
    c = _TRAY.get(Item)
    if c is None:
        class EmptyTray(Item):
            def __len__(self):
                return 0
        c = _TRAY[Item] = EmptyTray
    return c


def client(env, T, cid, rng, nops, W, H, mode, mon, other):
    from factorysimpy.helper.item import Item
    puts, gets = [], []
    used_p, used_g, canc_p, canc_g = [], [], [], []
    illp = mode.get("illformed", 0.0)
    probep = mode.get("probe", 0.0)
    # forgetful clients drop every reference to a token once it is used or cancelled, as real callers do: the object is freed and
    # its address is handed to one of the next events (a store that keys bookkeeping by id(request) must clean up on every path)
    forget = H.forgetful and not illp
    tok = None
    yield env.timeout(rng.choice((0, 0, 0.25, 0.5)))
    for _ in range(nops):
        tok = it = None
        if forget:
            H.prune()
        gp = [t for t in puts if t.triggered]
        pp = [t for t in puts if not t.triggered]
        gg = [t for t in gets if t.triggered]
        pg = [t for t in gets if not t.triggered]
        # ---------------- ill-formed calls (C07 mode)
        if illp and rng.random() < illp:
            cls = rng.choice(("fresh", "wrong_kind", "other_proc", "own_pending", "own_used", "own_cancelled",
                              "other_store", "cancel_unknown", "cancel_used", "cancel_cancelled", "cancel_other_store", "cancel_wrong_kind"))
            side = rng.choice(("put", "get"))
            tok = None
            if cls == "fresh":
                tok = env.event()
            elif cls == "wrong_kind":
                pool = gg if side == "put" else gp
                tok = rng.choice(pool) if pool else None
            elif cls == "other_proc":
                pool = [t for (t, c, s) in H.tokens if c != cid and s == side and t.triggered and t._m.state == "granted"]
                tok = rng.choice(pool) if pool else None
            elif cls == "own_pending":
                pool = pp if side == "put" else pg
                tok = rng.choice(pool) if pool else None
            elif cls == "own_used":
                pool = used_p if side == "put" else used_g
                tok = rng.choice(pool) if pool else None
            elif cls == "own_cancelled":
                pool = canc_p if side == "put" else canc_g
                tok = rng.choice(pool) if pool else None
            elif cls == "other_store":
                tok = other.reserve_put(0) if side == "put" else None
                if tok is not None and not tok.triggered:
                    other.cancel_put(tok)
                    tok = None
            elif cls == "cancel_other_store":
                # a live (pending or granted) reservation of the twin store, cancelled through this store's API
                tok = other.reserve_put(0) if side == "put" else other.reserve_get(0)
            elif cls == "cancel_unknown":
                tok = env.event()
            elif cls == "cancel_wrong_kind":
                # a live (waiting or granted) token of the opposite kind, of any process, given to this side's cancel
                opp = "get" if side == "put" else "put"
                pool = [t for (t, c, s_) in H.tokens if s_ == opp and getattr(t, "_m", None) is not None and t._m.state in ("pending", "granted")]
                tok = rng.choice(pool) if pool else None
            elif cls == "cancel_used":
                pool = used_p if side == "put" else used_g
                tok = rng.choice(pool) if pool else None
            elif cls == "cancel_cancelled":
                pool = canc_p if side == "put" else canc_g
                tok = rng.choice(pool) if pool else None
            if tok is not None:
                H.log(cid, "ill", cls, side)
                raised = None
                snap_other = other.sh.snapshot() if cls in ("other_store", "cancel_other_store") else None
                try:
                    if cls.startswith("cancel_"):
                        (T.cancel_put if side == "put" else T.cancel_get)(tok)
                    elif side == "put":
                        H.n_items += 1
                        it = Item(f"x{cid}.{H.n_items}")
                        it.length = getattr(T, "item_length", 1)
                        it.colour = rng.choice(COLOURS)
                        T.put(tok, it, rng)
                    else:
                        T.get(tok)
                except Exception as e_:
                    raised = e_
                # oracle at the API boundary the client used (an edge may resolve the store from the token)
                mon.counters["c07_client_level_checks"] += 1
                if raised is None:
                    mon.violation("C07", "illformed_accepted", f"{T.kind}:{'cancel' if cls.startswith('cancel_') else side}:{cls}:accepted-at-the-called-api",
                                  {"class": cls, "side": side})
                elif not isinstance(raised, RuntimeError):
                    mon.violation("C07", "illformed_wrong_exception", f"{T.kind}:{side}:{cls}:{type(raised).__name__}-at-the-called-api",
                                  {"class": cls, "exc": repr(raised)[:200]})
                if snap_other is not None and other.sh.snapshot() != snap_other and not other.sh.dead:
                    mon.violation("C07", "illformed_changed_state", f"{T.kind}:{cls}:rejected-or-accepted-call-changed-the-other-store",
                                  {"class": cls, "side": side})
                if cls in ("other_store", "cancel_other_store") and tok is not None:
                    try:
                        (other.cancel_put if side == "put" else other.cancel_get)(tok)
                    except Exception:
                        pass
                continue
        # ---------------- probes (C11)
        if probep and rng.random() < probep and T.edge is not None and hasattr(T.edge, "can_put"):
            side = rng.choice(("put", "get"))
            sh = T.sh
            try:
                if side == "put":
                    c = T.edge.can_put()
                    nontriv = len(sh.grant["put"]) > 0
                    tok = T.edge.reserve_put()
                    trig = tok.triggered
                    T.cancel_put(tok)
                else:
                    c = T.edge.can_get()
                    nontriv = len(sh.grant["get"]) > 0
                    tok = T.edge.reserve_get()
                    trig = tok.triggered
                    T.cancel_get(tok)
            except (AttributeError, NotImplementedError) as e:
                mon.violation("C11", "can_query_crashed", f"{T.kind}:can_{side}:{type(e).__name__}", {"exc": repr(e)})
                continue
            # reported occupancy = in-transit + ready items (shadow: put minus got)
            occ = None
            for name in ("occupancy", "get_occupancy", "belt_occupancy"):
                f = getattr(T.edge, name, None)
                if f is None:
                    continue
                try:
                    occ = f()
                    break
                except NotImplementedError:
                    continue
            if occ is not None:
                mon.counters["c11_occupancy_checks"] += 1
                if occ != len(sh.held):
                    mon.violation("C11", "occupancy_wrong", f"{T.kind}:reported-occupancy!=in-transit+ready",
                                  {"reported": occ, "held": len(sh.held), "ready": len(sh.ready() or [])})
            H.probe[side] += 1
            if nontriv:
                H.probe[side + "_nontrivial"] += 1
            H.log(cid, "probe", side, bool(c), trig)
            if bool(c) != bool(trig):
                mon.violation("C11", "can_query_inexact", f"{T.kind}:can_{side}={bool(c)}-but-probe-reservation-granted={trig}",
                              {"held": len(sh.held), "granted_put": len(sh.grant["put"]), "pending_put": len(sh.pend["put"]),
                               "granted_get": len(sh.grant["get"]), "pending_get": len(sh.pend["get"]), "cap": sh.cap})
            continue
        ops = []
        if len(puts) < W["max_put"]:
            ops.append(("rp", W["rp"]))
        if len(gets) < W["max_get"]:
            ops.append(("rg", W["rg"]))
        if gp:
            ops.append(("put", W["put"]))
            ops.append(("cancel_gput", W["cancel_gput"]))
        if pp:
            ops.append(("cancel_pput", W["cancel_pput"]))
            ops.append(("wait_put", W["wait_put"]))
        if gg:
            ops.append(("get", W["get"]))
            ops.append(("cancel_gget", W["cancel_gget"]))
        if pg:
            ops.append(("cancel_pget", W["cancel_pget"]))
            ops.append(("wait_get", W["wait_get"]))
        ops.append(("sleep", W["sleep"]))
        names, ws = zip(*ops)
        op = rng.choices(names, ws)[0]
        if op == "rp":
            prio = rng.choice(PRIOS) if T.prio else 0
            tok = T.reserve_put(prio)
            puts.append(tok)
            H.born(tok)
            H.tokens.append((tok, cid, "put"))
            H.log(cid, "rp", prio, tok.triggered)
        elif op == "rg":
            prio = rng.choice(PRIOS) if T.prio else 0
            filt = None
            if T.filters and rng.random() < 0.6:
                filt = make_filter(rng.choice(COLOURS))
            tok = T.reserve_get(prio, filt)
            gets.append(tok)
            H.born(tok)
            H.tokens.append((tok, cid, "get"))
            H.log(cid, "rg", prio, getattr(filt, "colour", None), tok.triggered)
        elif op == "put":
            tok = rng.choice(gp)
            H.n_items += 1
            # hostile but valid payloads: in one history out of eight some items are empty containers (falsy: __len__ == 0);
            # a store may test `item is None`, never the truth value of an item
            it = (empty_tray_class(Item) if H.falsy_items and rng.random() < 0.4 else Item)(f"c{cid}.{H.n_items}")
            if H.payload == "same_ids" and rng.random() < 0.6:
                # ids are the caller's business: several distinct objects may carry the same id (part numbers)
                it.id = f"part-{rng.randint(0, 2)}"
            elif H.payload == "equal_values" and rng.random() < 0.6:
                # distinct objects that compare equal (a value class with __eq__): a store must tell them apart by identity
                it = equal_value_class(Item)(f"part-{rng.randint(0, 1)}")
            it.length = getattr(T, "item_length", 1)
            it.colour = rng.choice(COLOURS)
            T.put(tok, it, rng)
            puts.remove(tok)
            if not forget:
                used_p.append(tok)
            H.log(cid, "put", it.id)
        elif op == "get":
            tok = rng.choice(gg)
            it = T.get(tok)
            gets.remove(tok)
            if not forget:
                used_g.append(tok)
            H.log(cid, "get", getattr(it, "id", None))
        elif op in ("cancel_gput", "cancel_pput"):
            tok = rng.choice(gp if op == "cancel_gput" else pp)
            T.cancel_put(tok)
            puts.remove(tok)
            if not forget:
                canc_p.append(tok)
            H.log(cid, op)
        elif op in ("cancel_gget", "cancel_pget"):
            tok = rng.choice(gg if op == "cancel_gget" else pg)
            T.cancel_get(tok)
            gets.remove(tok)
            if not forget:
                canc_g.append(tok)
            H.log(cid, op)
        elif op == "wait_put":
            tok = rng.choice(pp)
            yield env.any_of([tok, env.timeout(rng.choice((0.5, 1, 2, 4)))])
            H.log(cid, "wait_put", tok.triggered)
        elif op == "wait_get":
            tok = rng.choice(pg)
            yield env.any_of([tok, env.timeout(rng.choice((0.5, 1, 2, 4)))])
            H.log(cid, "wait_get", tok.triggered)
        else:
            d = rng.choice(SLEEPS)
            yield env.timeout(d)
            H.log(cid, "sleep", d)
    # epilogue: some clients clean up, some leave their tokens behind
    if rng.random() < 0.6:
        for tok in list(puts):
            T.cancel_put(tok)
        for tok in list(gets):
            if tok.triggered and rng.random() < 0.5:
                T.get(tok)
            else:
                T.cancel_get(tok)
        H.log(cid, "cleanup")


def script_client(env, T, cid, rng, nops, W, H):
    """A caller that is not a SimPy process: the model script itself between two pieces of a run, or a plain event callback.
    env.active_process is None for it, which is a legitimate owner of reservations (requesting_process None == active_process None).
    It cannot wait; it issues one operation per tick from a timer callback."""
    from factorysimpy.helper.item import Item
    puts, gets = [], []
    left = [nops]

    def tick(_ev):
        if left[0] <= 0:
            return
        left[0] -= 1
        gp = [t for t in puts if t.triggered]
        pp = [t for t in puts if not t.triggered]
        gg = [t for t in gets if t.triggered]
        pg = [t for t in gets if not t.triggered]
        ops = [("idle", W["sleep"])]
        if len(puts) < W["max_put"]:
            ops.append(("rp", W["rp"]))
        if len(gets) < W["max_get"]:
            ops.append(("rg", W["rg"]))
        if gp:
            ops += [("put", W["put"]), ("cancel_gput", W["cancel_gput"])]
        if pp:
            ops.append(("cancel_pput", W["cancel_pput"]))
        if gg:
            ops += [("get", W["get"]), ("cancel_gget", W["cancel_gget"])]
        if pg:
            ops.append(("cancel_pget", W["cancel_pget"]))
        names, ws = zip(*ops)
        op = rng.choices(names, ws)[0]
        if op == "rp":
            prio = rng.choice(PRIOS) if T.prio else 0
            tok = T.reserve_put(prio)
            puts.append(tok)
            H.tokens.append((tok, cid, "put"))
            H.log(cid, "rp", prio, tok.triggered)
        elif op == "rg":
            prio = rng.choice(PRIOS) if T.prio else 0
            filt = make_filter(rng.choice(COLOURS)) if T.filters and rng.random() < 0.6 else None
            tok = T.reserve_get(prio, filt)
            gets.append(tok)
            H.tokens.append((tok, cid, "get"))
            H.log(cid, "rg", prio, getattr(filt, "colour", None), tok.triggered)
        elif op == "put":
            tok = rng.choice(gp)
            H.n_items += 1
            it = Item(f"c{cid}.{H.n_items}")
            it.length = getattr(T, "item_length", 1)
            it.colour = rng.choice(COLOURS)
            T.put(tok, it, rng)
            puts.remove(tok)
            H.log(cid, "put", it.id)
        elif op == "get":
            tok = rng.choice(gg)
            it = T.get(tok)
            gets.remove(tok)
            H.log(cid, "get", getattr(it, "id", None))
        elif op in ("cancel_gput", "cancel_pput"):
            tok = rng.choice(gp if op == "cancel_gput" else pp)
            T.cancel_put(tok)
            puts.remove(tok)
            H.log(cid, op)
        elif op in ("cancel_gget", "cancel_pget"):
            tok = rng.choice(gg if op == "cancel_gget" else pg)
            T.cancel_get(tok)
            gets.remove(tok)
            H.log(cid, op)
        H.script_ops += 1
        nxt = env.timeout(rng.choice(SLEEPS + (0,)))
        nxt.callbacks.append(tick)

    first = env.timeout(rng.choice((0, 0.25, 0.5, 1)))
    first.callbacks.append(tick)


def run_case(seed, kind=None, profile=None, mode=None, nops=None):
    use_repo()
    shim.install()
    rng = random.Random(seed)
    mode = dict(mode or {})
    kinds = mode.get("kinds") or KINDS[:9]
    kind = kind or rng.choice(kinds)
    profile = profile or rng.choice(mode.get("profiles") or PROFILES)
    cap = rng.choice((1, 1, 2, 2, 3, 4))
    ncl = rng.randint(2, 5)
    nops = nops or rng.randint(15, 60)
    env = MonEnv()
    mon = Monitor(env)
    T = Target(env, mon, kind, cap, rng)
    other = Target(env, mon, kind if kind not in ("belt_acc", "belt_nacc", "slotbelt") else "rrs", 2, random.Random(seed + 1))
    other.sh.label = "other-store"
    H = Hist()
    H.falsy_items = rng.random() < 0.125
    W = weights(profile)
    rng2 = random.Random(seed ^ 0x5EED)      # decisions added later draw from their own stream (older histories stay what they were)
    H.forgetful = rng2.random() < mode.get("forgetful", 0.3)
    H.payload = mode.get("payload") or rng2.choice((None,) * 10 + ("same_ids",))
    if H.payload == "same_ids" and kind in ("belt_acc", "belt_nacc", "slotbelt"):
        # the belt stores key their per-item move processes by item.id: two same-id items on ONE belt collide on the pinned tree
        # (observed: NA3 / NA2 / two-at-exit alarms). Recorded in DESIGN section 7 (round 10) as an observation; not exercised.
        H.payload = None
    if H.payload == "equal_values":
        T.sh.mech_suffix = ":value-equal-items"      # input class of known finding KF-value-equal-items
    T.sh.forget_items = H.forgetful and not mode.get("illformed")
    for c in range(ncl):
        env.process(client(env, T, c, random.Random(rng.random()), nops, W, H, mode, mon, other))
    if rng2.random() < 0.2:
        script_client(env, T, "s", random.Random(rng2.random()), nops, W, H)
    exc = None
    horizon = mode.get("horizon", 80)
    try:
        env.run(until=horizon)
    except Exception as e:  # a crash of the library under well-formed use
        exc = e
    sh = T.sh
    # end-of-run checks
    if T.fleet_oracle is not None:
        T.fleet_oracle.finish(env.now)
    if T.conv_oracle is not None:
        T.conv_oracle.finish(env.now)
    # C11: the value the delay source handed out is the delay that travels with the item (drawn once per put, unchanged)
    if T.delay_src is not None and T.delay_src.style != "const" and exc is None and not sh.dead and not mode.get("illformed"):
        # (histories with injected ill-formed puts are left out: a rejected put has consumed a draw as well)
        drawn = list(T.delay_src.values)
        seen = [d for d in sh.delays_log]
        mon.counters["c11_delay_draws_checked"] += len(seen)
        if drawn[:len(seen)] != seen or len(drawn) - len(seen) not in (0, 1):
            k = next((i for i in range(min(len(drawn), len(seen))) if drawn[i] != seen[i]), min(len(drawn), len(seen)))
            mon.violation("C11", "buffer_delay_draws", "buffer:delay-source-not-consulted-once-per-put-or-other-value-travels-with-the-item",
                          {"first_difference_at": k, "drawn": drawn[k:k + 4], "with_items": seen[k:k + 4], "lens": (len(drawn), len(seen))})
    res = summarize(mon, sh, H, env, exc)
    if T.conv_oracle is not None:
        res["nontrivial"]["C12"] = len(T.conv_oracle.items) >= 8
        res["nontrivial"]["C13"] = bool(getattr(T.conv_oracle, "nontrivial13", False))
    if T.fleet_oracle is not None:
        res["nontrivial"]["C14"] = bool(getattr(T.fleet_oracle, "nontrivial", False))
    res["spec"] = {"engine": "E1", "seed": seed, "kind": kind, "profile": profile, "cap": T.cap, "clients": ncl,
                   "nops": nops, "params": T.params, "mode": {k: v for k, v in mode.items() if k not in ("kinds", "profiles")}}
    # C11: the delay source must be consulted exactly once per put through the Buffer edge
    if T.delay_src is not None and T.delay_src.style != "const" and exc is None:
        nput = sh.stats["call_put"] + sum(v for k, v in sh.stats.items() if k.startswith("illformed_"))
        drawn = T.delay_src.values
        vals = [ir_delay for ir_delay in getattr(sh, "delays_seen", [])]
        mon.counters["c11_delay_draws"] += len(drawn)
    return res


def summarize(mon, sh, H, env, exc):
    st = sh.stats
    h = hashlib.sha256(repr(H.ops).encode()).hexdigest()[:16]
    nontriv = {
        "C01": st["full_with_pending_put"] > 0,
        "C01_cancel_granted_put_while_full": st["cancel_granted_put_while_full"] > 0,
        "C02": (st["cancel_granted_get"] > 0 and mon.counters["gets"] >= 2) or mon.counters["c06_nontrivial_choices"] > 0,
        "C04": sum(1 for k in ("grant_via_put", "grant_via_get", "grant_via_reserve_put_cancel",
                               "grant_via_reserve_get_cancel", "grant_via_timer") if st[k] > 0) >= 2,
        "C05": st["grants_after_wait"] >= 2,
        "C06": st["cancel_granted_get"] > 0 and mon.counters["c06_nontrivial_choices"] > 0,
        "C07": mon.counters["c07_illformed_nontrivial"] > 0,
        "C11": H.probe["put_nontrivial"] + H.probe["get_nontrivial"] > 0,
        "C18": sh.occ_changes >= 6,
    }
    mon.counters["e1_forgetful_histories"] += int(H.forgetful)
    mon.counters["e1_token_addresses_reused"] += H.addr_reused
    mon.counters["e1_script_level_ops"] += H.script_ops
    mon.counters["e1_item_addresses_reused"] += st["item_address_reused"]
    crash = None
    if exc is not None:
        import traceback
        root = exc
        while root.__cause__ is not None:
            root = root.__cause__
        tb = traceback.extract_tb(root.__traceback__)
        fr = [f for f in tb if "/factorysimpy/" in f.filename]
        where = f"{fr[-1].filename.split('/factorysimpy/')[-1]}:{fr[-1].name}" if fr else "harness"
        crash = {"type": type(exc).__name__, "where": where, "msg": str(exc)[:200]}
    return {
        "viol": mon.violations, "viol_count": {"|".join(k): v for k, v in mon.viol_count.items()},
        "counters": dict(mon.counters), "stats": dict(st), "nontrivial": nontriv, "hash": h,
        "crash": crash, "probe": H.probe, "nops_done": len(H.ops), "steps": env.mon_steps,
        "sigs": len(mon.sigs), "sample_ops": H.ops[:40], "end": env.now, "max_burst": env.mon_max_burst,
        "clock_back": len(env.mon_clock_back),
    }


def run_case_params(seed, params, spec=None):
    r = run_case(seed, mode=params)
    r["spec"]["params_in"] = params
    return r
