"""E2 - small-scope exhaustive store histories.

All operation sequences up to length n over a small alphabet, issued by one driver process
(variant 'two': two processes taking turns, each using only its own tokens), enumerated
depth-first over the operations *enabled* in the current state by re-executing the real store
from scratch for every leaf (stateless search).  Every prefix is checked by the same
ShadowStore oracles as E1.  The space of one unit is finite and covered completely."""
import random

from .. import use_repo, shim
from ..kernel import MonEnv
from ..monitor import Monitor
from .e1 import Target, Hist, summarize, make_filter, COLOURS

PRIO_PATTERN = (0, -1, 0, 1, -1)
FILT_PATTERN = (None, "red", None, "blue")
COL_PATTERN = ("red", "blue", "blue", "red")
MAX_OUT = 3


class Skip(Exception):
    pass


class Chooser:
    def __init__(self, stack, depth_limit, shard, nshards, split_depth=2):
        self.stack = stack
        self.depth = 0
        self.limit = depth_limit
        self.shard = shard
        self.nshards = nshards
        self.split_depth = split_depth
        self.path = []

    def choose(self, options):
        d = self.depth
        if d >= self.limit:
            return None
        if d < len(self.stack):
            c = self.stack[d][0]
            self.stack[d][1] = len(options)
        else:
            c = 0
            self.stack.append([0, len(options)])
        self.depth += 1
        self.path.append(options[c])
        if self.depth == self.split_depth and self.nshards > 1:
            h = 0
            for k in range(self.split_depth):
                h = h * 31 + self.stack[k][0]
            if h % self.nshards != self.shard:
                raise Skip()
        return options[c]


def driver(env, T, ch, H, nproc, turn_events, me):
    from factorysimpy.helper.item import Item
    puts, gets = T._puts[me], T._gets[me]
    while True:
        if nproc == 2:
            yield turn_events[me][0]
            turn_events[me][0] = env.event()
        opts = []
        if len(puts) < MAX_OUT:
            opts.append("rp")
        if len(gets) < MAX_OUT:
            opts.append("rg")
        gp = [t for t in puts if t.triggered]
        gg = [t for t in gets if t.triggered]
        if gp:
            opts.append("put")
        if gg:
            opts.append("get_old")
            if len(gg) >= 2:
                opts.append("get_new")
        if puts:
            opts.append("cancel_put_old")
        if gets:
            opts.append("cancel_get_old")
            if len(gets) >= 2:
                opts.append("cancel_get_new")
        if T.sh.delayed and T._ticks < 3:
            opts.append("tick")
        op = ch.choose(opts)
        if op is None:
            if T._illformed and not T._done:
                inject_illformed(env, T, me, H)
            T._done = True
            if nproc == 2:
                turn_events[1 - me][0].succeed()
            return
        H.log(me, op)
        if op == "rp":
            prio = PRIO_PATTERN[T._np % len(PRIO_PATTERN)] if T.prio else 0
            T._np += 1
            puts.append(T.reserve_put(prio))
        elif op == "rg":
            prio = PRIO_PATTERN[(T._ng + 2) % len(PRIO_PATTERN)] if T.prio else 0
            filt = None
            if T.filters:
                c = FILT_PATTERN[T._ng % len(FILT_PATTERN)]
                filt = make_filter(c) if c else None
            T._ng += 1
            gets.append(T.reserve_get(prio, filt))
        elif op == "put":
            tok = gp[0]
            T._ni += 1
            it = Item(f"i{T._ni}")
            it.length = 1
            it.colour = COL_PATTERN[T._ni % len(COL_PATTERN)]
            T.put(tok, it, T._rng)
            puts.remove(tok)
            T._used["put"].append(tok)
        elif op == "get_old":
            tok = gg[0]
            T.get(tok)
            gets.remove(tok)
            T._used["get"].append(tok)
        elif op == "get_new":
            tok = gg[-1]
            T.get(tok)
            gets.remove(tok)
            T._used["get"].append(tok)
        elif op == "cancel_put_old":
            tok = puts.pop(0)
            T.cancel_put(tok)
            T._canc["put"].append(tok)
        elif op == "cancel_get_old":
            tok = gets.pop(0)
            T.cancel_get(tok)
            T._canc["get"].append(tok)
        elif op == "cancel_get_new":
            tok = gets.pop(-1)
            T.cancel_get(tok)
            T._canc["get"].append(tok)
        elif op == "tick":
            T._ticks += 1
            yield env.timeout(1)
        if nproc == 2:
            turn_events[1 - me][0].succeed()


def inject_illformed(env, T, me, H):
    """every ill-formed class, one after the other, in the state the sequence ended in (a rejected
    call must leave the state untouched, so all of them see the same state)"""
    from factorysimpy.helper.item import Item
    puts, gets = T._puts[me], T._gets[me]
    other_p = T._puts[1 - me] if len(T._puts) > 1 else []
    other_g = T._gets[1 - me] if len(T._gets) > 1 else []
    cand = []
    for side, mine, others, opp in (("put", puts, other_p, gets), ("get", gets, other_g, puts)):
        cand.append((side, "fresh", env.event()))
        for t in opp:
            if t.triggered:
                cand.append((side, "wrong_kind", t))
                break
        for t in others:
            if t.triggered:
                cand.append((side, "other_proc", t))
                break
        for t in mine:
            if not t.triggered:
                cand.append((side, "own_pending", t))
                break
        if T._used[side]:
            cand.append((side, "own_used", T._used[side][-1]))
            cand.append((side, "cancel_used", T._used[side][-1]))
        if T._canc[side]:
            cand.append((side, "own_cancelled", T._canc[side][-1]))
            cand.append((side, "cancel_cancelled", T._canc[side][-1]))
        cand.append((side, "cancel_unknown", env.event()))
    for side, cls, tok in cand:
        H.log(me, "ill", cls, side)
        try:
            if cls.startswith("cancel_"):
                (T.cancel_put if side == "put" else T.cancel_get)(tok)
            elif side == "put":
                it = Item("ill")
                it.length = 1
                it.colour = "red"
                T.put(tok, it, T._rng)
            else:
                T.get(tok)
        except Exception:
            pass


class FixedRng:
    """delay chooser for raw BufferStore puts: unit delays"""
    def choice(self, seq):
        return 1


def run_leaf(kind, cap, nproc, depth, stack, shard, nshards, illformed=False):
    env = MonEnv()
    mon = Monitor(env)
    rng = random.Random(7)
    T = Target(env, mon, kind, cap, rng)
    if kind.startswith("bufferstore"):
        T.lattice = (1,)
    T._rng = FixedRng()
    T._puts, T._gets = ([], []), ([], [])
    if nproc == 1:
        T._puts, T._gets = ([],), ([],)
    T._np = T._ng = T._ni = T._ticks = 0
    T._done = False
    T._illformed = illformed
    T._used = {"put": [], "get": []}
    T._canc = {"put": [], "get": []}
    H = Hist()
    ch = Chooser(stack, depth, shard, nshards)
    turn = [[env.event()], [env.event()]]
    for me in range(nproc):
        env.process(driver(env, T, ch, H, nproc, turn, me))
    if nproc == 2:
        turn[0][0].succeed()
    exc = None
    skipped = False
    try:
        env.run(until=30)
    except Skip:
        skipped = True
    except Exception as e:
        root = e
        while root.__cause__ is not None:
            root = root.__cause__
        if isinstance(root, Skip):
            skipped = True
        else:
            exc = e
    return mon, T, H, env, exc, skipped, ch


from ..plan import E2_UNITS as UNITS


def run_unit(index, params):
    use_repo()
    shim.install()
    depth = params.get("depth", 6)
    nshards = params.get("nshards", 8)
    unit = UNITS[(index // nshards) % len(UNITS)]
    shard = index % nshards
    kind, cap, nproc = unit
    from collections import Counter
    counters, stats, viol_count = Counter(), Counter(), Counter()
    viols = []
    nt = Counter()
    leaves = 0
    crashes = Counter()
    first_crash = None
    sample = None
    stack = []
    steps = 0
    while True:
        mon, T, H, env, exc, skipped, ch = run_leaf(kind, cap, nproc, depth, stack, shard, nshards,
                                                    params.get("illformed", False))
        if skipped:
            del stack[ch.depth:]
        else:
            leaves += 1
            sh = T.sh
            fo = getattr(T, "fleet_oracle", None)
            if fo is not None:
                fo.finish(env.now)
            r = summarize(mon, sh, H, env, exc)
            steps += env.mon_steps
            for k, v in r["counters"].items():
                counters[k] += v
            for k, v in r["stats"].items():
                stats[k] += v
            for k, v in r["viol_count"].items():
                viol_count[k] += v
            for k, v in r["nontrivial"].items():
                if v:
                    nt[k] += 1
            if r["viol"] and len(viols) < 6:
                for v in r["viol"][:2]:
                    v = dict(v)
                    v["ops"] = list(H.ops)
                    viols.append(v)
            if r["crash"]:
                crashes[r["crash"]["type"] + ":" + r["crash"]["where"]] += 1
                if first_crash is None:
                    first_crash = dict(r["crash"], ops=list(H.ops))
            if sample is None and len(H.ops) >= depth:
                sample = list(H.ops)
            del stack[ch.depth:]
        # backtrack
        while stack and stack[-1][0] + 1 >= stack[-1][1]:
            stack.pop()
        if not stack:
            break
        stack[-1][0] += 1
    scope = f"{kind} cap={cap} procs={nproc} depth={depth} shard={shard}/{nshards}"
    res = {
        "spec": {"engine": "E2", "seed": index, "kind": kind, "cap": cap, "procs": nproc, "depth": depth,
                 "shard": shard, "nshards": nshards},
        "viol": viols, "viol_count": dict(viol_count), "counters": dict(counters), "stats": dict(stats),
        "nontrivial": {}, "nt_count": dict(nt), "hash": None, "crash": None, "sample_ops": sample or [],
        "steps": steps, "sigs": 0, "max_burst": 0, "clock_back": 0,
        "extra": {"e2_leaves": leaves, "exhaustive_scopes": [scope + f" leaves={leaves}"]},
        "multi": leaves,
    }
    if crashes:
        res["crash"] = {"type": first_crash["type"], "where": first_crash["where"], "msg": first_crash["msg"],
                        "ops": first_crash["ops"], "count": sum(crashes.values())}
    return res


def run_unit_params(seed, params, index=None, spec=None):
    if index is None:
        index = (spec or {}).get("index", 0)
    r = run_unit(index, params)
    r["spec"]["params_in"] = params
    return r
