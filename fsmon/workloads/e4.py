"""E4 - scripted conveyor clients: one ConveyorBelt (continuous or slotted, accumulating or not)
between a producer process with an arrival script and a consumer process with a service script."""
import random

from .. import use_repo, shim
from ..kernel import MonEnv
from ..monitor import Monitor
from ..oracles.conveyor import ConveyorOracle
from .e1 import Stub, summarize, Hist


def make_conveyor(env, rng, kind=None, ragged=False):
    kind = kind or rng.choice(("cont_acc", "cont_nacc", "slot_acc", "slot_nacc"))
    if kind.startswith("cont"):
        from factorysimpy.edges.continuous_conveyor import ConveyorBelt
        # integer belt length that is a multiple of the item length (anything else is geometry class 'ragged', D14)
        L = rng.choice((1, 2, 3, 4, 5, 6))
        il = rng.choice([x for x in (1, 0.5, 0.25, 2, 3, 4, 5, 6) if (L / x) == int(L / x) and L / x >= 1] or [0.5])
        n = int(L / il)
        if ragged:
            L = rng.choice((1.5, 2.5, 5, 3.3))
            il = rng.choice((0.3, 0.7, 1, 0.4))
        sp = rng.choice((1, 2, 0.5, 0.7, 1.4))
        acc = 1 if kind.endswith("_acc") else 0
        cv = ConveyorBelt(env, "CV", conveyor_length=L, speed=sp, item_length=il, accumulating=acc)
        T, s, cap = L / sp, il / sp, cv.capacity
        params = dict(L=L, item_len=il, speed=sp, acc=acc, cap=cap, n=n)
        slotted = False
    else:
        from factorysimpy.edges.slotted_conveyor import ConveyorBelt
        cap = rng.choice((1, 2, 3, 4, 5))
        d = rng.choice((0.5, 1, 0.25, 0.3, 0.7))
        acc = 1 if kind.endswith("_acc") else 0
        cv = ConveyorBelt(env, "CV", capacity=cap, delay=d, accumulating=acc)
        T, s = cap * d, d
        il = 1
        params = dict(capacity=cap, delay=d, acc=acc)
        slotted = True
    cv.src_node, cv.dest_node = Stub("s"), Stub("d")
    return cv, kind, T, s, cap, acc, slotted, il, params


def run_case(seed, params=None):
    use_repo()
    shim.install()
    from factorysimpy.helper.item import Item
    params = params or {}
    rng = random.Random(seed)
    env = MonEnv()
    mon = Monitor(env)
    def lane(tag):
        ragged = bool(params.get("ragged")) and rng.random() < 0.5
        cv, kind, T, s, cap, acc, slotted, il, cparams = make_conveyor(env, rng, params.get("kind"), ragged)
        sh = mon.label(cv.belt, kind, cv)
        # mixed: items of different lengths (multiples of the belt's nominal item length) on one continuous belt
        mixed = bool(params.get("mixed")) and not slotted and not ragged
        orc = ConveyorOracle(mon, sh, T, s, cap, acc, slotted, ragged, mixed)
        lens = [m for m in (1, 1, 1, 2, 3, 3, 4, 0.5) if m * s <= T] if mixed else [1]
        H = Hist()
        nitems = rng.randint(8, 40)
        arr = rng.choice(("regular", "bursty", "irregular", "saturating"))
        cons = rng.choice(("eager", "eager", "short_stalls", "long_stalls", "repeated", "stall_on_entry")) if not params.get("eager") else "eager"
        if mixed and rng.random() < 0.6:
            cons = rng.choice(("repeated", "short_stalls", "repeated_short"))   # several short stalls while a long item is still entering
        aligned = (bool(params.get("aligned")) or rng.random() < 0.4) and not (mixed and cons == "repeated_short")
        if aligned:
            arr = "aligned"
            cons = "aligned"
        gaps_irr = (0.13, 0.37, 0.5, 1.0, 1.41, 2.0, 0.77, s, 2 * s, T, s / 2, 3.3)

        def producer():
            yield env.timeout(rng.choice((0, 0.5, 0.25)) if not aligned else rng.choice((0, s, 2 * s)))
            for i in range(nitems):
                tok = cv.reserve_put()
                yield tok
                it = Item(f"{tag}i{i}")
                it.mon_len_steps = rng.choice(lens) if mixed else 1
                it.length = il * it.mon_len_steps
                cv.put(tok, it)
                H.log("p", "put", it.id, env.now)
                if arr == "aligned":
                    Tn = int(round(T / s))
                    g = s * rng.choice((0, 1, 1, 2, 3, 5, Tn, max(1, Tn - 1), Tn + 1, max(1, Tn - 2)))
                elif arr == "regular":
                    g = max(s, 1.0)
                elif arr == "bursty":
                    g = 0 if i % 4 != 3 else rng.choice((T, 2 * T, 3.7))
                elif arr == "saturating":
                    g = 0
                else:
                    g = rng.choice(gaps_irr)
                if g > 0:
                    yield env.timeout(g)

        def consumer():
            k = 0
            while True:
                tok = cv.reserve_get()
                yield tok
                it = cv.get(tok)
                H.log("c", "get", it.id, env.now)
                k += 1
                if cons == "aligned":
                    m = rng.choice((0, 0, 0, 1, 2, 3, 7, int(round(T / s)) + 1))
                    if m:
                        yield env.timeout(m * s)
                elif cons == "short_stalls" and k % 3 == 0:
                    yield env.timeout(rng.choice((s / 2, s, 0.3, 1.5 * s)))
                elif cons == "long_stalls" and k % 4 == 0:
                    yield env.timeout(rng.choice((T, 2 * T, T + 0.37, 5)))
                elif cons == "repeated_short":
                    yield env.timeout(rng.choice((s / 4, s / 2, s / 2, 0.1, s)))
                elif cons == "repeated":
                    yield env.timeout(rng.choice((0, 0, s, 2 * s, 0.4, T / 2)))
                elif cons == "stall_on_entry" and k % 2 == 0:
                    # sleep so that the stall starts while the next item is in its entry phase
                    yield env.timeout(rng.choice((T - s / 2, T - s + 0.01, s / 3 + T)) if T > s else s)

        env.process(producer())
        env.process(consumer())
        return cv, kind, T, s, cap, acc, slotted, il, cparams, sh, orc, H, nitems, arr, cons, aligned, ragged

    cv, kind, T, s, cap, acc, slotted, il, cparams, sh, orc, H, nitems, arr, cons, aligned, ragged = lane("")
    # companion belt: a second, independently scripted conveyor in the same environment (per-instance state that is
    # wrongly shared between two belts only shows when two belts exist); judged by its own oracle
    orc2 = None
    if params.get("pair") or rng.random() < 0.2:
        # half of the companions use the same item ids as the first belt (ids are the caller's business: per-belt
        # bookkeeping keyed by item id must not be shared between belts)
        orc2 = lane(rng.choice(("b", "")))[10]
    exc = None
    try:
        env.run(until=params.get("horizon", 300))
    except Exception as e:
        exc = e
    orc.finish(env.now)
    if orc2 is not None:
        orc2.finish(env.now)
    res = summarize(mon, sh, H, env, exc)
    res["nontrivial"]["C12"] = bool(getattr(orc, "nontrivial12", False)) or (len(orc.items) >= 8 and orc.n_exact >= 4 if hasattr(orc, "n_exact") else False)
    res["nontrivial"]["C13"] = bool(getattr(orc, "nontrivial13", False))
    res["spec"] = {"engine": "E4", "seed": seed, "kind": kind, "arrivals": arr, "consumer": cons, "items": nitems, "geometry": cparams, "aligned": aligned,
                   "T": T, "step": s, "ragged": ragged, "companion_belt": orc2 is not None, "mixed_lengths": bool(params.get("mixed"))}
    return res


def run_case_params(seed, params, spec=None):
    r = run_case(seed, params)
    r["spec"]["params_in"] = params
    return r
