"""Class-level wrappers around the store protocol operations (installed once per process).

They record the call *before invoking* and the return / raise *after*, and pass both to the
ShadowStore of the store's environment.  With a plain simpy.Environment (no monitor) they are
transparent.  Nothing in /repo is edited: the wrappers are set on the imported classes."""
import functools
import importlib

from . import use_repo

STORE_CLASSES = [
    ("factorysimpy.base.reservable_priority_req_store", "ReservablePriorityReqStore"),
    ("factorysimpy.base.reservable_req_store", "ReservableReqStore"),
    ("factorysimpy.base.reservable_priority_req_filter_store", "ReservablePriorityReqFilterStore"),
    ("factorysimpy.base.buffer_store", "BufferStore"),
    ("factorysimpy.base.fleet_store", "FleetStore"),
    ("factorysimpy.base.slotted_belt_store", "BeltStore"),
    ("factorysimpy.base.belt_store", "BeltStore"),
]
EDGE_CLASSES = [
    ("factorysimpy.edges.buffer", "Buffer"),
    ("factorysimpy.edges.fleet", "Fleet"),
    ("factorysimpy.edges.continuous_conveyor", "ConveyorBelt"),
    ("factorysimpy.edges.slotted_conveyor", "ConveyorBelt"),
]
OPS = ("reserve_put", "reserve_get", "put", "get", "reserve_put_cancel", "reserve_get_cancel")

_installed = False
wrapped = {}


def _resolve(cls, op):
    """the function that implements `op` for `cls`, wherever in the library's own class hierarchy it is defined (a
    refactoring may move it into a shared base class); simpy's own Store.put / Store.get are not ours to wrap"""
    import inspect
    for k in cls.__mro__:
        f = k.__dict__.get(op)
        if f is None:
            continue
        if getattr(f, "_fsmon", False):
            return None                      # inherited from a class that is wrapped already
        if inspect.isfunction(f) and (getattr(f, "__module__", "") or "").startswith("factorysimpy"):
            return f
        return None
    return None


def _wrap_reserve(cls, name, orig, side):
    @functools.wraps(orig)
    def w(self, *a, **k):
        mon = getattr(getattr(self, "env", None), "_mon", None)
        if mon is None or mon.suppress:
            return orig(self, *a, **k)
        sh = mon.shadow(self)
        prio = k.get("priority", a[0] if a else 0)
        filt = k.get("filter", a[1] if len(a) > 1 else None) if side == "get" else None
        for h in mon.precall_hooks:
            h(sh, name, a)
        ctx = mon.begin_reserve(sh, name, side, prio, filt)
        try:
            tok = orig(self, *a, **k)
        except BaseException as e:
            mon.record(sh.label, name, "raise", type(e).__name__)
            mon.end_reserve(ctx, None, e)
            raise
        if ctx.rec is not None and filt is None and sh.kind == "filter":
            ctx.rec.filter = getattr(tok, "filter", None)
        late = ctx.rec is None
        mon.record(sh.label, name, getattr(ctx.rec, "seq", None), "prio", prio, "granted" if tok.triggered else "pending")
        mon.end_reserve(ctx, tok, None)
        if late and ctx.rec is not None and filt is None and sh.kind == "filter":
            ctx.rec.filter = getattr(tok, "filter", None)     # token registered only now (not created with env.event())
        for h in mon.call_hooks:
            h(sh, {"op": name, "rec": ctx.rec, "cls": "ok"}, tok, None)
        return tok
    w._fsmon = True
    return w


def _wrap_op(cls, name, orig):
    @functools.wraps(orig)
    def w(self, *a, **k):
        mon = getattr(getattr(self, "env", None), "_mon", None)
        if mon is None or mon.suppress:
            return orig(self, *a, **k)
        sh = mon.shadow(self)
        for h in mon.precall_hooks:
            h(sh, name, a)
        info = sh.before(name, a)
        try:
            res = orig(self, *a, **k)
        except BaseException as e:
            mon.record(sh.label, name, getattr(info["rec"], "seq", None), info["cls"], "raise", type(e).__name__)
            sh.after(info, None, e)
            for h in mon.call_hooks:
                h(sh, info, None, e)
            raise
        mon.record(sh.label, name, getattr(info["rec"], "seq", None), info["cls"],
                   getattr(info.get("item"), "id", None) if name == "put" else getattr(res, "id", res))
        sh.after(info, res, None)
        for h in mon.call_hooks:
            h(sh, info, res, None)
        return res
    w._fsmon = True
    return w


def _wrap_can(cls, name, orig):
    @functools.wraps(orig)
    def w(self, *a, **k):
        mon = getattr(getattr(self, "env", None), "_mon", None)
        if mon is None or mon.suppress:
            return orig(self, *a, **k)
        store = getattr(self, "inbuiltstore", None)
        if store is None:
            store = getattr(self, "belt", None)
        sh = mon.shadow(store) if store is not None else None
        before = (len(sh.pend["put"]) + len(sh.grant["put"]), len(sh.pend["get"]) + len(sh.grant["get"])) if sh is not None else None
        seq0 = sh.seq if sh is not None else 0
        try:
            res = orig(self, *a, **k)
        except BaseException as e:
            for h in mon.can_hooks:
                h(self, name, None, e)
            raise
        if sh is not None and not sh.dead:
            after = (len(sh.pend["put"]) + len(sh.grant["put"]), len(sh.pend["get"]) + len(sh.grant["get"]))
            mon.counters["can_query_side_effect_checks"] += 1
            if after != before:
                for side in ("put", "get"):
                    for r in sh.pend[side] + sh.grant[side]:
                        if r.seq > seq0:
                            r.leaked = True
                what = f"{sh.kind}:{name}-left-a-reservation-behind"
                d = {"edge": getattr(self, "id", None), "answer": bool(res), "requests_before": before, "requests_after": after}
                mon.violation("C10", "leaked_reservation", what, d)
                mon.violation("C04", "query_leaves_request", what + ":it-takes-the-next-wake-up-instead-of-the-next-request-in-line", d)
                mon.violation("C11", "can_query_side_effect", what, d)
        for h in mon.can_hooks:
            h(self, name, res, None)
        return res
    w._fsmon = True
    return w


def install():
    global _installed
    if _installed:
        return wrapped
    use_repo()
    for mod, cname in EDGE_CLASSES:
        try:
            m = importlib.import_module(mod)
            cls = getattr(m, cname)
        except Exception as e:
            wrapped[(mod, cname)] = repr(e)
            continue
        for op in ("can_put", "can_get"):
            orig = _resolve(cls, op)
            if orig is None:
                continue
            setattr(cls, op, _wrap_can(cls, op, orig))
    for mod, cname in STORE_CLASSES:
        try:
            m = importlib.import_module(mod)
            cls = getattr(m, cname)
        except Exception as e:  # a refactoring removed the class: counted by the caller
            wrapped[(mod, cname)] = repr(e)
            continue
        for op in OPS:
            orig = _resolve(cls, op)
            if orig is None:
                continue
            if op == "reserve_put":
                setattr(cls, op, _wrap_reserve(cls, op, orig, "put"))
            elif op == "reserve_get":
                setattr(cls, op, _wrap_reserve(cls, op, orig, "get"))
            else:
                setattr(cls, op, _wrap_op(cls, op, orig))
        wrapped[(mod, cname)] = cls
    _installed = True
    return wrapped
