"""Factory-level oracles: ItemLedger (C03), NodeLedger (C08 C09 C10 C15 C16), state-time and counter
truthfulness (C17 C18).  Everything is fed by boundary events:
  * store API calls (via Monitor.call_hooks / precall_hooks), with the calling process -> owner node
  * flow-item construction, pallet packing / unpacking (observing list behind Pallet.items)
  * node stats counters (observing dict behind node.stats)
  * consultations of user-supplied delay / selection sources (Seq.log)
"""
from collections import Counter, defaultdict

from ..shadow import TOL, PERSIST
from .fleet import FleetOracle

NODE_TYPES = {"Source": "source", "Machine": "machine", "Splitter": "splitter", "Combiner": "combiner", "Sink": "sink"}


def tol(t):
    return TOL * max(1.0, abs(t))


class ObsDict(dict):
    """node.stats replacement: reports writes to the integer counters"""
    __slots__ = ("_cb",)

    def __setitem__(self, k, v):
        old = self.get(k)
        dict.__setitem__(self, k, v)
        if isinstance(v, int) and not isinstance(v, bool) and isinstance(old, int) and v != old and k.startswith("num_item"):
            self._cb(k, old, v)


class ObsList(list):
    """Pallet.items replacement: reports append / pop"""
    __slots__ = ("_pallet", "_fo")

    def append(self, x):
        list.append(self, x)
        self._fo.on_pack(self._pallet, x)

    def pop(self, *a):
        x = list.pop(self, *a)
        self._fo.on_unpack(self._pallet, x)
        return x


class ItemState:
    __slots__ = ("item", "iid", "kind", "state", "where", "source", "t_created", "t_first_put", "last_edge", "last_getter",
                 "hist", "t_state", "stamps")

    def __init__(self, item, kind, source, t):
        self.item = item
        self.iid = item.id
        self.kind = kind
        self.state = "CREATED"
        self.where = source
        self.source = source
        self.t_created = t
        self.t_first_put = None
        self.last_edge = None
        self.last_getter = None
        self.hist = []
        self.t_state = t
        self.stamps = []


class Unit:
    """one unit of work inside a node (machine: item; splitter: incoming pallet; combiner: gathered pallet)"""
    __slots__ = ("x", "t_in", "edge_in", "d", "t_off", "t_out", "edge_out", "discarded", "worker", "first_try_edge",
                 "k", "t_gather", "emitted", "content", "t_ready_checked")

    def __init__(self, x, t_in, edge_in, k):
        self.x = x
        self.t_in = t_in
        self.edge_in = edge_in
        self.d = None
        self.t_off = None
        self.t_out = None
        self.edge_out = None
        self.discarded = False
        self.worker = None
        self.first_try_edge = None
        self.k = k
        self.t_gather = None
        self.emitted = []
        self.content = None
        self.t_ready_checked = False


class NodeLedger:
    def __init__(self, node, ntype):
        self.node = node
        self.type = ntype
        self.id = node.id
        self.units = []            # Unit, in pull order
        self.by_item = {}          # id(item) -> Unit (open units)
        self.pulls = []            # (t, in_idx, iid)
        self.pushes = []           # (t, out_idx, iid)
        self.discards = []         # (t, iid)
        self.first_tries_out = []  # out edge index of each unit's first attempt, in consultation order
        self.in_attempts = []      # in edge index of each pull attempt (non-FA)
        self.held = 0
        self.max_held = 0
        self.counter_events = defaultdict(list)   # stats key -> [(t, new)]
        self.tokens = {}           # TokRec -> (process, slice_no)
        self.created = 0
        self.blocked_intervals = 0
        self.discard_events = 0
        self.states_seen = set()
        self.cur_src_item = None
        self.inside = {}           # id(item) -> ItemState placed in this node (IN_NODE / CREATED)
        self.can_calls = 0
        self.gathering = None      # combiner: Unit being gathered
        self.n_ingredients = 0


class FactoryOracle:
    def __init__(self, mon, model, params=None):
        self.mon = mon
        self.env = mon.env
        self.m = model
        self.params = params or {}
        self.spec = model.spec
        self.items = {}            # id(item) -> ItemState
        self.keep = []
        self.ledgers = {}          # id(node) -> NodeLedger
        self.edge_of_store = {}    # id(store) -> edge
        self.edge_idx_out = {}     # id(edge) -> index in src.out_edges
        self.edge_idx_in = {}
        self.fleet_oracles = []
        self.slice_no = 0
        self.events = []           # compact event log (for samples / C19)
        self.finished = False
        self.pallets = []
        for nid, node in model.nodes.items():
            nt = NODE_TYPES[type(node).__name__]
            L = NodeLedger(node, nt)
            self.ledgers[id(node)] = L
            st = ObsDict(node.stats)
            st._cb = (lambda k, old, new, L=L: self.on_counter(L, k, old, new))
            node.stats = st
        for eid, edge in model.edges.items():
            store = getattr(edge, "inbuiltstore", None)
            if store is None:
                store = edge.belt
            self.edge_of_store[id(store)] = edge
            sh = mon.label(store, f"{eid}:{edge._spec['type']}", edge)
            if edge._spec["type"] == "fleet":
                self.fleet_oracles.append(FleetOracle(mon, sh, edge._spec["capacity"], edge._spec["delay"], edge._spec["transit"]))
        for node in model.nodes.values():
            for i, e in enumerate(node.out_edges or []):
                self.edge_idx_out[id(e)] = i
            for i, e in enumerate(node.in_edges or []):
                self.edge_idx_in[id(e)] = i
        self._patch_items()
        self.node_procs = defaultdict(list)
        self.ledger_by_id = {L.id: L for L in self.ledgers.values()}
        self.suspects = {}
        self.rng_consumers = 0
        mon.proc_hooks.append(self.on_proc)
        mon.can_hooks.append(self.on_can)
        for p_ in self.env.mon_procs:
            self.on_proc(p_)
        mon.call_hooks.append(self.on_call)
        mon.precall_hooks.append(self.on_precall)
        mon.eoi_hooks.append(self.on_eoi)
        mon.slice_begin_hooks.append(self.on_slice_begin)

    # ------------------------------------------------------------------ item creation / packing
    def _patch_items(self):
        from factorysimpy.helper import baseflowitem, pallet as pallet_mod
        fo = self
        env = self.env
        B = baseflowitem.BaseFlowItem
        if not getattr(B, "_fsmon_patched", False):
            orig_init = B.__init__

            def init(self_, id_):
                orig_init(self_, id_)
                cb = getattr(B, "_fsmon_cb", None)
                if cb is not None:
                    cb(self_)
            B.__init__ = init
            B._fsmon_patched = True
            P = pallet_mod.Pallet
            orig_pinit = P.__init__

            def pinit(self_, id_):
                orig_pinit(self_, id_)
                cb = getattr(B, "_fsmon_pcb", None)
                if cb is not None:
                    cb(self_)
            P.__init__ = pinit
        B._fsmon_cb = self.on_create
        B._fsmon_pcb = self.on_create_pallet

    def owner(self):
        p = self.env.active_process
        if p is None:
            return None, None
        return getattr(p, "mon_owner", None), p

    def on_create(self, item):
        node, proc = self.owner()
        L = self.ledgers.get(id(node))
        kind = "pallet" if type(item).__name__ == "Pallet" else "item"
        st = ItemState(item, kind, L.id if L else None, self.env.now)
        self.items[id(item)] = st
        self.keep.append(item)
        if L is None or L.type != "source":
            self.mon.violation("C03", "item_invented", "factory:flow-item-created-outside-a-source",
                               {"item": item.id, "by": getattr(node, "id", None)})
        else:
            L.created += 1
            if L.cur_src_item is not None and L.cur_src_item.state == "CREATED":
                self.mon.violation("C03", "source_holds_two", "source:second-item-created-while-one-is-still-held",
                                   {"source": L.id, "held": L.cur_src_item.iid, "new": item.id})
            L.cur_src_item = st
        self.mon.counters["items_created"] += 1

    def on_create_pallet(self, pallet):
        ol = ObsList(pallet.items)
        ol._pallet = pallet
        ol._fo = self
        pallet.items = ol
        self.pallets.append(pallet)

    def on_pack(self, pallet, x):
        node, proc = self.owner()
        L = self.ledgers.get(id(node))
        sx = self.items.get(id(x))
        sp = self.items.get(id(pallet))
        nid = L.id if L else None
        if sx is None or sp is None:
            self.mon.violation("C03", "pack_unknown", "factory:packing-of-unknown-object", {"node": nid})
            return
        if sx.state != "IN_NODE" or sx.where != nid or sp.state != "IN_NODE" or sp.where != nid:
            self.mon.violation("C03", "pack_illegal", "combiner:packed-an-item-or-pallet-it-does-not-hold",
                               {"node": nid, "item": sx.iid, "item_state": (sx.state, sx.where), "pallet": sp.iid,
                                "pallet_state": (sp.state, sp.where)})
        self._set(sx, "PACKED", sp.iid)
        self.mon.counters["packs"] += 1
        self.events.append((self.env.now, "pack", nid, sp.iid, sx.iid))

    def on_unpack(self, pallet, x):
        node, proc = self.owner()
        L = self.ledgers.get(id(node))
        sx = self.items.get(id(x))
        sp = self.items.get(id(pallet))
        nid = L.id if L else None
        if sx is None or sp is None:
            return
        if sx.state != "PACKED" or sx.where != sp.iid or sp.state != "IN_NODE" or sp.where != nid:
            self.mon.violation("C03", "unpack_illegal", "splitter:unpacked-from-a-pallet-it-does-not-hold-or-item-not-packed-there",
                               {"node": nid, "item": sx.iid, "item_state": (sx.state, sx.where), "pallet_state": (sp.state, sp.where)})
        self._set(sx, "IN_NODE", nid)
        self.mon.counters["unpacks"] += 1
        self.events.append((self.env.now, "unpack", nid, sp.iid, sx.iid))
        u = L.by_item.get(id(pallet)) if L else None
        if u is not None:
            u.emitted.append(("unpacked", sx.iid))

    def _set(self, st, state, where):
        if st.state in ("IN_NODE", "CREATED"):
            Lo = self.ledger_by_id.get(st.where)
            if Lo is not None:
                Lo.inside.pop(id(st.item), None)
        st.hist.append((st.t_state, st.state, st.where))
        st.state = state
        st.where = where
        st.t_state = self.env.now
        if state in ("IN_NODE", "CREATED"):
            Ln = self.ledger_by_id.get(where)
            if Ln is not None:
                Ln.inside[id(st.item)] = st

    def on_proc(self, proc):
        node = getattr(proc, "mon_owner", None)
        if id(node) in self.ledgers:
            self.node_procs[id(node)].append(proc)

    def on_can(self, edge, op, res, exc):
        node, proc = self.owner()
        L = self.ledgers.get(id(node))
        if L is None:
            return
        L.can_calls += 1
        self.mon.counters["node_can_put_calls"] += 1
        if op == "can_put":
            u = self._unit_of_proc(L, proc)
            if u is not None:
                self._offer(L, u)
                if u.first_try_edge is None:
                    u.first_try_edge = self.edge_idx_out.get(id(edge))
                    if L.node._spec.get("out_sel") != "FIRST_AVAILABLE":
                        L.first_tries_out.append(u.first_try_edge)
            elif L.type == "source" and L.node._spec.get("out_sel") != "FIRST_AVAILABLE":
                L.first_tries_out.append(self.edge_idx_out.get(id(edge)))
            if exc is None:
                # C11: the answer must agree with the shadow model of the edge
                store = getattr(edge, "inbuiltstore", None)
                if store is not None:
                    sh = self.mon.shadow(store)
                    exp = sh.free() > 0
                    self.mon.counters["c11_node_can_put_checked"] += 1
                    if bool(res) != exp:
                        self.mon.violation("C11", "can_query_inexact", f"{sh.kind}:can_put={bool(res)}-but-free-space={sh.free()}",
                                           {"edge": edge.id, "held": len(sh.held), "granted_put": len(sh.grant["put"]), "cap": sh.cap})

    def _delay_of(self, L, u):
        d = L.node._spec.get("delay")
        if d is None:
            return None
        if d["kind"] == "const":
            return d["seq"][0]
        sq = self.m.seqs.get(L.id + ".delay")
        if sq is None or u.k >= len(sq.log):
            return None
        return sq.log[u.k][1]

    def _offer(self, L, u):
        """first downstream offer of a unit (first reserve_put / can_put / discard by its worker)"""
        if u.t_off is not None:
            return
        now = self.env.now
        u.t_off = now
        d = self._delay_of(L, u)
        u.d = d
        if d is None:
            self.mon.counters["c08_offer_without_delay"] += 1
            return
        self.mon.counters["c08_offers_checked"] += 1
        if L.type in ("machine", "splitter"):
            exp = u.t_in + d
            if abs(now - exp) > tol(exp):
                self.mon.violation("C08", "offer_time", f"{L.type}:unit-offered-downstream-at-other-than-pull+delay",
                                   {"node": L.id, "t_in": u.t_in, "delay": d, "offered": now, "expected": exp})
        elif L.type == "combiner":
            if u.t_gather is None:
                self.mon.violation("C08", "offer_before_gather", "combiner:pallet-offered-before-all-ingredients-were-taken", {"node": L.id})
                return
            prev_out = None
            if u.k > 0:
                prev_out = L.units[u.k - 1].t_out
            lo = u.t_gather + d
            hi = max(u.t_gather, prev_out if prev_out is not None else u.t_gather) + d
            if now < lo - tol(lo) or now > hi + tol(hi):
                self.mon.violation("C08", "offer_time", "combiner:pallet-offered-outside-[gather+delay, max(gather,worker-free)+delay]",
                                   {"node": L.id, "t_gather": u.t_gather, "prev_out": prev_out, "delay": d, "offered": now})

    # ------------------------------------------------------------------ counters
    def on_counter(self, L, key, old, new):
        now = self.env.now
        L.counter_events[key].append((now, new))
        if key == "num_item_discarded":
            self.on_discard(L, old, new)

    def on_discard(self, L, old, new):
        mon = self.mon
        node, proc = self.owner()
        now = self.env.now
        L.discard_events += 1
        mon.counters["discards"] += 1
        if new - old != 1:
            mon.violation("C09", "discard_count_step", f"{L.type}:discard-counter-moved-by-other-than-one",
                          {"node": L.id, "old": old, "new": new})
        blocking = getattr(L.node, "blocking", None)
        if blocking:
            mon.violation("C09", "blocking_discarded", f"{L.type}:blocking-node-discarded-an-item", {"node": L.id, "t": now})
        # which item? the unit carried by the active process
        x = None
        if proc is not None:
            loc = proc.mon_locals()
            x = loc.get("item")
            if x is None:
                x = loc.get("item_to_push")
        sx = self.items.get(id(x)) if x is not None else None
        if sx is None:
            mon.violation("C03", "discard_without_item", f"{L.type}:discard-counted-but-no-item-left-the-node", {"node": L.id})
            return
        ok = (sx.state == "IN_NODE" and sx.where == L.id) or (L.type == "source" and sx.state == "CREATED" and sx.where == L.id)
        if not ok:
            mon.violation("C03", "discard_illegal", f"{L.type}:discarded-an-item-it-does-not-hold",
                          {"node": L.id, "item": sx.iid, "state": (sx.state, sx.where)})
        self._set(sx, "DISCARDED", L.id)
        L.discards.append((now, sx.iid))
        self.events.append((now, "discard", L.id, sx.iid))
        u0 = self._unit_of_proc(L, proc)
        if u0 is not None:
            self._offer(L, u0)
        u = L.by_item.pop(id(x), None)
        if L.type == "splitter":
            # the unit is the pallet being unloaded; x is one of its items or the pallet itself
            for uu in L.units:
                if uu.t_out is None and not uu.discarded:
                    uu.emitted.append(("discard", sx.iid))
                    if x is uu.x:
                        uu.discarded = True
                        uu.t_out = now
                        L.held -= 1
                    break
        elif u is not None:
            u.discarded = True
            u.t_out = now
            L.held -= 1
        # C09: dropped although a permitted out-edge had room (state is exact: nothing ran since the decision)
        if not blocking:
            self._check_drop_despite_room(L, sx)

    def _permitted_out(self, L, u=None):
        node = L.node
        sel = node._spec.get("out_sel")
        outs = node.out_edges or []
        if sel == "FIRST_AVAILABLE":
            return list(range(len(outs)))
        last = None
        try:
            rec = node.stats.get("out_edge_selection")
            if rec:
                last = rec[-1]
        except Exception:
            pass
        if isinstance(sel, int):
            return [sel]
        if isinstance(sel, dict):
            s = self.m.seqs.get(L.id + ".out")
            if s is not None and s.log:
                return [s.log[-1][1]]
        if last is not None:
            return [last]
        return None     # unknown (Source records nothing for RANDOM / ROUND_ROBIN)

    def _check_drop_despite_room(self, L, sx):
        perm = self._permitted_out(L)
        outs = L.node.out_edges or []
        if perm is None:
            if L.type == "source" and L.node._spec.get("out_sel") == "ROUND_ROBIN":
                perm = [ (len(L.first_tries_out)) % len(outs) ] if outs else []
                return
            # weaker form: dropped => at least one out-edge without room
            if all(self._free(e) > 0 for e in outs) and outs:
                self.mon.violation("C09", "dropped_despite_room", f"{L.type}:non-blocking-node-dropped-although-every-out-edge-had-room",
                                   {"node": L.id, "item": sx.iid})
            return
        room = [i for i in perm if 0 <= i < len(outs) and self._free(outs[i]) > 0]
        if room:
            self.mon.violation("C09", "dropped_despite_room", f"{L.type}:non-blocking-node-dropped-although-permitted-out-edge-had-room",
                               {"node": L.id, "item": sx.iid, "edges_with_room": room, "policy": repr(L.node._spec.get("out_sel"))[:40]})

    def _free(self, edge):
        store = getattr(edge, "inbuiltstore", None)
        if store is None:
            store = edge.belt
        sh = self.mon.shadow(store)
        return sh.free()

    def _avail(self, edge):
        store = getattr(edge, "inbuiltstore", None)
        if store is None:
            store = edge.belt
        sh = self.mon.shadow(store)
        r = sh.ready()
        if r is None:
            return 0
        return len(r) - len(sh.grant["get"])

    # ------------------------------------------------------------------ store API events
    def on_slice_begin(self, proc):
        self.slice_no += 1

    def on_precall(self, sh, op, args):
        pass

    def on_call(self, sh, info, result, exc):
        if exc is not None:
            return
        op = info["op"]
        edge = sh.edge
        if edge is None:
            return
        node, proc = self.owner()
        L = self.ledgers.get(id(node))
        now = self.env.now
        if op == "put" and info.get("cls") == "ok":
            x = info.get("item")
            self.on_put(L, edge, x, proc, now)
        elif op == "get" and info.get("cls") == "ok":
            self.on_get(L, edge, result, proc, now)
        elif op in ("reserve_put", "reserve_get"):
            rec = info.get("rec")
            if L is not None and rec is not None:
                self.on_reserve(L, edge, op, rec, proc)

    def on_reserve(self, L, edge, op, rec, proc):
        # leaked reservations (C10 d): a process issues new reservations in a later slice while it still
        # has live tokens from an earlier slice
        live_old = [r for r, (p, sl) in L.tokens.items() if p is proc and r.state in ("pending", "granted") and sl != self.slice_no]
        if live_old and L.type not in ("combiner",):
            r0 = live_old[0]
            self.mon.violation("C10", "leaked_reservation", f"{L.type}:{proc.mon_name}:new-reservation-issued-while-an-older-one-is-neither-used-nor-cancelled",
                               {"node": L.id, "old_token": (r0.side, r0.sh.label, r0.state, r0.t_issue), "new": (rec.side, rec.sh.label)})
            for r in live_old:
                L.tokens.pop(r, None)
        L.tokens[rec] = (proc, self.slice_no)
        for r in [r for r in L.tokens if r.state in ("used", "cancelled")]:
            del L.tokens[r]
        if op == "reserve_put":
            # first offer of the unit carried by this process
            u = self._unit_of_proc(L, proc)
            if u is not None:
                self._offer(L, u)
            if u is None and L.type == "source" and L.node._spec.get("out_sel") != "FIRST_AVAILABLE":
                L.first_tries_out.append(self.edge_idx_out.get(id(edge)))
            if u is not None and u.first_try_edge is None:
                idx = self.edge_idx_out.get(id(edge))
                u.first_try_edge = idx
                sel = L.node._spec.get("out_sel")
                if sel != "FIRST_AVAILABLE":
                    L.first_tries_out.append(idx)
        else:
            sel = L.node._spec.get("in_sel")
            if sel is not None and sel != "FIRST_AVAILABLE":
                L.in_attempts.append(self.edge_idx_in.get(id(edge)))

    def _unit_of_proc(self, L, proc):
        if proc is None:
            return None
        p = proc
        for _ in range(3):
            loc = p.mon_args if p is not None else {}
            for key in ("item", "item_to_push", "pallet"):
                x = loc.get(key)
                if x is not None:
                    u = L.by_item.get(id(x))
                    if u is not None:
                        return u
            # splitter worker: current item is a local of the running frame
            cur = p.mon_locals()
            for key in ("item", "pallet"):
                x = cur.get(key)
                if x is not None:
                    u = L.by_item.get(id(x))
                    if u is not None:
                        return u
            p = getattr(p, "mon_parent", None)
            if p is None:
                break
        if L.type == "source":
            return None
        return None

    def on_put(self, L, edge, x, proc, now):
        mon = self.mon
        sx = self.items.get(id(x))
        nid = L.id if L else None
        if sx is None:
            mon.violation("C03", "put_unknown_item", "factory:put-of-an-object-no-source-created", {"node": nid, "edge": edge.id})
            return
        legal = (sx.state == "IN_NODE" and sx.where == nid) or (sx.state == "CREATED" and sx.where == nid)
        if not legal:
            mon.violation("C03", "put_not_held", f"{L.type if L else '?'}:put-of-an-item-the-node-does-not-hold",
                          {"node": nid, "item": sx.iid, "state": (sx.state, sx.where), "edge": edge.id})
        if edge.src_node is not (L.node if L else None):
            mon.violation("C03", "put_wrong_edge", "factory:put-into-an-edge-by-a-node-that-is-not-its-source",
                          {"node": nid, "edge": edge.id})
        if sx.t_first_put is None:
            sx.t_first_put = now
        self._set(sx, "IN_EDGE", edge.id)
        sx.last_edge = edge.id
        self.events.append((now, "put", edge.id, sx.iid))
        mon.counters["factory_puts"] += 1
        if L is None:
            return
        idx = self.edge_idx_out.get(id(edge))
        L.pushes.append((now, idx, sx.iid))
        if L.type == "source":
            if L.cur_src_item is sx:
                L.cur_src_item = None
            return
        u = L.by_item.get(id(x))
        if L.type == "splitter":
            for uu in L.units:
                if uu.t_out is None and not uu.discarded:
                    uu.emitted.append(("put", sx.iid, idx))
                    if x is uu.x:
                        uu.t_out = now
                        uu.edge_out = idx
                        L.held -= 1
                        L.by_item.pop(id(x), None)
                    break
            return
        if u is not None:
            u.t_out = now
            u.edge_out = idx
            L.held -= 1
            L.by_item.pop(id(x), None)
            if u.t_off is not None and now > u.t_off + tol(now):
                L.blocked_intervals += 1
            if L.type == "combiner":
                self._check_recipe(L, u, x)

    def on_get(self, L, edge, x, proc, now):
        mon = self.mon
        sx = self.items.get(id(x))
        nid = L.id if L else None
        if sx is None:
            return
        if sx.state != "IN_EDGE" or sx.where != edge.id:
            mon.violation("C03", "get_not_in_edge", "factory:get-returned-an-item-the-ledger-does-not-place-in-that-edge",
                          {"edge": edge.id, "item": sx.iid, "state": (sx.state, sx.where)})
        if L is None or edge.dest_node is not L.node:
            mon.violation("C03", "get_wrong_node", "factory:get-from-an-edge-by-a-node-that-is-not-its-destination",
                          {"node": nid, "edge": edge.id})
        self.events.append((now, "get", edge.id, sx.iid))
        mon.counters["factory_gets"] += 1
        if L is None:
            return
        idx = self.edge_idx_in.get(id(edge))
        sx.last_getter = nid
        if L.type == "sink":
            self._set(sx, "RECEIVED", nid)
            L.pulls.append((now, idx, sx.iid))
            sx.stamps.append(("received", now))
            return
        self._set(sx, "IN_NODE", nid)
        L.pulls.append((now, idx, sx.iid))
        if L.type == "combiner" and idx != 0:
            # ingredient: belongs to the pallet being gathered
            g = L.gathering
            if g is None:
                mon.violation("C16", "ingredient_without_pallet", "combiner:ingredient-taken-while-no-pallet-is-being-filled", {"node": L.id})
                return
            L.n_ingredients += 1
            if L.n_ingredients >= L.need:
                g.t_gather = now
                L.gathering = None
            return
        u = Unit(x, now, idx, len(L.units))
        L.units.append(u)
        L.by_item[id(x)] = u
        L.held += 1
        if L.type == "combiner":
            recipe = L.node._spec["recipe"]
            L.need = sum(recipe[1:len(L.node.in_edges)])
            L.n_ingredients = 0
            if L.need == 0:
                u.t_gather = now
            else:
                L.gathering = u
        L.max_held = max(L.max_held, L.held)
        wc = getattr(L.node, "work_capacity", 1)
        if L.type == "machine" and L.held > wc:
            mon.violation("C08", "over_work_capacity", "machine:holds-more-items-than-work_capacity",
                          {"node": L.id, "held": L.held, "wc": wc})
        if L.type == "splitter" and sx.kind == "pallet":
            u.content = [getattr(i, "id", None) for i in x.items]

    # ------------------------------------------------------------------ C16
    def _check_recipe(self, L, u, pallet):
        mon = self.mon
        recipe = L.node._spec["recipe"]
        mon.counters["c16_pallets_checked"] += 1
        sp = self.items.get(id(pallet))
        if sp is None or sp.kind != "pallet":
            mon.violation("C16", "combiner_output_not_pallet", "combiner:output-is-not-a-pallet", {"node": L.id})
            return
        # the pallet must have come from in-edge 0 in this cycle
        if u.edge_in != 0:
            mon.violation("C16", "pallet_not_from_first_edge", "combiner:pallet-not-taken-from-in-edge-0", {"node": L.id, "edge": u.edge_in})
        got = Counter()
        ins = L.node.in_edges
        for it in pallet.items:
            si = self.items.get(id(it))
            if si is None or si.state != "PACKED" or si.where != sp.iid:
                mon.violation("C16", "content_not_packed_here", "combiner:pallet-carries-an-object-the-ledger-does-not-place-in-it",
                              {"node": L.id, "item": getattr(it, "id", None)})
                continue
            # source edge of the item: the edge it was last got from, by this combiner
            idx = None
            for i, e in enumerate(ins):
                if e.id == si.last_edge:
                    idx = i
            if si.last_getter != L.id or idx is None:
                mon.violation("C16", "content_foreign", "combiner:pallet-carries-an-item-not-taken-from-one-of-its-in-edges",
                              {"node": L.id, "item": si.iid, "last_edge": si.last_edge})
                continue
            got[idx] += 1
        want = {i: recipe[i] for i in range(1, len(recipe)) if i < len(ins)}
        for i in set(want) | set(got):
            if got.get(i, 0) != want.get(i, 0):
                mon.violation("C16", "recipe_mismatch", "combiner:pallet-content-differs-from-recipe",
                              {"node": L.id, "edge": i, "have": got.get(i, 0), "want": want.get(i, 0), "recipe": recipe})
                break

    # ------------------------------------------------------------------ end of instant
    def _refs(self, L):
        node = L.node
        refs = set()
        for name in ("item_in_process", "pallet_in_process"):
            v = getattr(node, name, None)
            if v is not None:
                refs.add(id(v))
        procs = self.node_procs.get(id(node), [])
        alive = []
        for p in procs:
            if p.is_alive:
                alive.append(p)
                for v in p.mon_locals().values():
                    refs.add(id(v))
        if len(alive) != len(procs):
            self.node_procs[id(node)] = alive
        return refs

    def _suspect(self, key, now, prop, check, mech, detail):
        """persistence margin for 'must have happened by now' checks (DESIGN section 6)"""
        t0 = self.suspects.get(key)
        self._live.add(key)
        if t0 is None:
            self.suspects[key] = now
        elif now > t0 + PERSIST and t0 != float("inf"):
            detail = dict(detail)
            detail["since"] = t0
            detail["now"] = now
            self.mon.violation(prop, check, mech, detail)
            self.suspects[key] = float("inf")

    def on_eoi(self, now):
        mon = self.mon
        self._live = set()
        for L in self.ledgers.values():
            node = L.node
            # ---------------- C03: every item the ledger places in the node is really held by it
            if L.inside:
                refs = self._refs(L)
                for st in L.inside.values():
                    mon.counters["c03_inside_checks"] += 1
                    if id(st.item) not in refs:
                        mon.violation("C03", "item_vanished", f"{L.type}:item-in-node-is-no-longer-referenced-by-the-node",
                                      {"node": L.id, "item": st.iid, "since": st.t_state})
            # ---------------- counters (C18 / C03)
            stt = node.stats
            if L.type == "source":
                if stt.get("num_item_generated") != L.created:
                    self._suspect(("gen", L.id), now, "C18", "generated_counter", "source:num_item_generated!=items-created",
                                  {"node": L.id, "reported": stt.get("num_item_generated"), "created": L.created})
            if "num_item_discarded" in stt and stt.get("num_item_discarded") != len(L.discards):
                self._suspect(("disc", L.id), now, "C18", "discarded_counter", f"{L.type}:num_item_discarded!=items-dropped",
                              {"node": L.id, "reported": stt.get("num_item_discarded"), "dropped": len(L.discards)})
            if L.type == "sink" and stt.get("num_item_received") != len(L.pulls):
                self._suspect(("recv", L.id), now, "C18", "received_counter", "sink:num_item_received!=items-taken",
                              {"node": L.id, "reported": stt.get("num_item_received"), "taken": len(L.pulls)})
            if L.type in ("machine", "splitter", "combiner") and stt.get("num_item_processed") != len(L.pushes):
                self._suspect(("proc", L.id), now, "C18", "processed_counter", f"{L.type}:num_item_processed!=items-pushed",
                              {"node": L.id, "reported": stt.get("num_item_processed"), "pushed": len(L.pushes)})
            blocking = getattr(node, "blocking", True)
            # ---------------- C09: a non-blocking node never waits with a finished item
            if not blocking:
                if L.type == "source":
                    st = L.cur_src_item
                    if st is not None and st.state == "CREATED" and now > st.t_created + PERSIST:
                        self._suspect(("wait", L.id, st.iid), now, "C09", "nonblocking_waited", "source:non-blocking-source-holds-a-generated-item-across-instants",
                                      {"node": L.id, "item": st.iid, "created": st.t_created})
                else:
                    for u in L.by_item.values():
                        d = u.d if u.d is not None else self._delay_of(L, u)
                        if L.type == "combiner":
                            ready = u.t_off
                        else:
                            ready = None if d is None else u.t_in + d
                        if ready is not None and now > ready + PERSIST + tol(ready):
                            self._suspect(("wait", L.id, u.k), now, "C09", "nonblocking_waited", f"{L.type}:non-blocking-node-still-holds-a-finished-unit",
                                          {"node": L.id, "unit": getattr(u.x, "id", None), "ready": ready})
            # ---------------- C10 (c): finished unit, permitted out-edge with room (non-belt edges)
            if blocking and L.type in ("machine", "splitter", "combiner"):
                outs = node.out_edges or []
                for u in L.by_item.values():
                    if u.t_off is None or now < u.t_off:
                        continue
                    sel = node._spec.get("out_sel")
                    if sel == "FIRST_AVAILABLE":
                        perm = range(len(outs))
                    elif L.type == "splitter":
                        perm = ()
                    else:
                        perm = (u.first_try_edge,) if u.first_try_edge is not None else ()
                    for i in perm:
                        e = outs[i]
                        if hasattr(e, "belt"):
                            continue
                        mon.counters["c10_out_checks"] += 1
                        if self._free(e) > 0:
                            self._suspect(("out", L.id, u.k, i), now, "C10", "finished_item_not_pushed",
                                          f"{L.type}:finished-unit-held-although-permitted-out-edge-has-room",
                                          {"node": L.id, "unit": getattr(u.x, "id", None), "edge": e.id, "t_off": u.t_off})
            if blocking and L.type == "source":
                st = L.cur_src_item
                if st is not None and st.state == "CREATED":
                    outs = node.out_edges or []
                    if node._spec.get("out_sel") == "FIRST_AVAILABLE":
                        for e in outs:
                            if not hasattr(e, "belt") and self._free(e) > 0:
                                self._suspect(("srcout", L.id, st.iid, e.id), now, "C10", "finished_item_not_pushed",
                                              "source:generated-item-held-although-an-out-edge-has-room",
                                              {"node": L.id, "item": st.iid, "edge": e.id})
            # ---------------- C10 (a)/(b): free worker and available item on a permitted in-edge
            ins = node.in_edges or []
            if L.type == "sink":
                for e in ins:
                    mon.counters["c10_in_checks"] += 1
                    if self._avail(e) > 0:
                        self._suspect(("sinkin", L.id, e.id), now, "C10", "available_item_not_taken", "sink:ready-item-left-in-an-in-edge",
                                      {"node": L.id, "edge": e.id, "avail": self._avail(e)})
            elif L.type in ("machine", "splitter") and node._spec.get("in_sel") == "FIRST_AVAILABLE":
                setup = node._spec.get("setup", 0)
                wc = getattr(node, "work_capacity", 1) if L.type == "machine" else 1
                if now >= setup and L.held < wc:
                    for e in ins:
                        mon.counters["c10_in_checks"] += 1
                        if self._avail(e) > 0:
                            self._suspect(("in", L.id, e.id), now, "C10", "available_item_not_taken",
                                          f"{L.type}:free-worker-and-available-item-on-an-in-edge",
                                          {"node": L.id, "edge": e.id, "held": L.held, "wc": wc})
            # ---------------- C10: granted reservations that are not used in the granting instant
            for rec, (proc, sl) in list(L.tokens.items()):
                if rec.state in ("used", "cancelled"):
                    del L.tokens[rec]
                    continue
                if rec.state == "granted" and now > rec.t_grant + PERSIST:
                    if rec.side == "get" and L.type == "splitter" and L.held >= 1:
                        continue      # legitimately waits for its single worker
                    if rec.side == "get" and L.type == "combiner":
                        continue
                    self._suspect(("tok", id(rec)), now, "C10", "granted_reservation_unused",
                                  f"{L.type}:{proc.mon_name}:granted-{rec.side}-reservation-neither-used-nor-cancelled",
                                  {"node": L.id, "edge": rec.sh.label, "granted": rec.t_grant})
                if not proc.is_alive and rec.state in ("pending", "granted"):
                    self._suspect(("dead", id(rec)), now, "C10", "leaked_reservation",
                                  f"{L.type}:{proc.mon_name}:process-ended-leaving-a-live-reservation",
                                  {"node": L.id, "edge": rec.sh.label, "state": rec.state})
        for k in [k for k in self.suspects if k not in self._live]:
            del self.suspects[k]

    # ------------------------------------------------------------------ end of run
    def finish(self, exc):
        if self.finished:
            return
        self.finished = True
        for fo in self.fleet_oracles:
            fo.finish(self.env.now)

    def nontrivial(self):
        mon = self.mon
        n_recv = sum(1 for s in self.items.values() if s.state == "RECEIVED")
        n_disc = mon.counters["discards"]
        blocked = sum(L.blocked_intervals for L in self.ledgers.values())
        return {
            "C03": (n_disc >= 1 or blocked >= 1) and n_recv >= 20,
            "C01": any(sh.stats["full_with_pending_put"] > 0 for sh in mon.shadow_list),
            "C16": mon.counters["c16_pallets_checked"] >= 3,
        }

    def sample(self):
        return [list(e) for e in self.events[:40]]
