"""Factory-level oracles: ItemLedger (C03), NodeLedger (C08 C09 C10 C15 C16), state-time and counter
truthfulness (C17 C18).  Everything is fed by boundary events:
  * store API calls (via Monitor.call_hooks / precall_hooks), with the calling process -> owner node
  * flow-item construction, pallet packing / unpacking (observing list behind Pallet.items)
  * node stats counters (observing dict behind node.stats)
  * consultations of user-supplied delay / selection sources (Seq.log)
"""
from collections import Counter, defaultdict

from ..shadow import TOL, PERSIST
from .fleet import FleetOracle
from .conveyor import ConveyorOracle

NODE_TYPES = {"Source": "source", "Machine": "machine", "Splitter": "splitter", "Combiner": "combiner", "Sink": "sink"}


def tol(t):
    return TOL * max(1.0, abs(t))


class ObsDict(dict):
    """node.stats replacement: reports writes to the integer counters"""
    __slots__ = ("_cb",)

    def __setitem__(self, k, v):
        old = self.get(k)
        dict.__setitem__(self, k, v)
        if isinstance(v, int) and not isinstance(v, bool) and isinstance(old, int) and v != old and k.startswith("num_item"):
            self._cb(k, old, v)


class ObsList(list):
    """Pallet.items replacement: reports append / pop"""
    __slots__ = ("_pallet", "_fo")

    def append(self, x):
        list.append(self, x)
        self._fo.on_pack(self._pallet, x)

    def pop(self, *a):
        x = list.pop(self, *a)
        self._fo.on_unpack(self._pallet, x)
        return x

    def remove(self, x):
        list.remove(self, x)
        self._fo.on_unpack(self._pallet, x)

    def __delitem__(self, i):
        xs = self[i] if isinstance(i, slice) else [self[i]]
        list.__delitem__(self, i)
        for x in xs:
            self._fo.on_unpack(self._pallet, x)

    def clear(self):
        xs = list(self)
        list.clear(self)
        for x in xs:
            self._fo.on_unpack(self._pallet, x)

    def extend(self, xs):
        for x in xs:
            self.append(x)

    def insert(self, i, x):
        list.insert(self, i, x)
        self._fo.on_pack(self._pallet, x)

    def __iadd__(self, xs):
        self.extend(xs)
        return self


class ItemState:
    __slots__ = ("item", "iid", "kind", "state", "where", "source", "t_created", "t_first_put", "last_edge", "last_getter",
                 "hist", "t_state", "stamps", "out_try", "can_log", "last_stamp")

    def __init__(self, item, kind, source, t):
        self.item = item
        self.iid = item.id
        self.kind = kind
        self.state = "CREATED"
        self.where = source
        self.source = source
        self.t_created = t
        self.t_first_put = None
        self.last_edge = None
        self.last_getter = None
        self.hist = []
        self.t_state = t
        self.stamps = []
        self.out_try = None
        self.can_log = []
        self.last_stamp = None


class Unit:
    """one unit of work inside a node (machine: item; splitter: incoming pallet; combiner: gathered pallet)"""
    __slots__ = ("x", "t_in", "edge_in", "d", "t_off", "t_out", "edge_out", "discarded", "worker", "first_try_edge",
                 "k", "t_gather", "emitted", "content", "t_ready_checked")

    def __init__(self, x, t_in, edge_in, k):
        self.x = x
        self.t_in = t_in
        self.edge_in = edge_in
        self.d = None
        self.t_off = None
        self.t_out = None
        self.edge_out = None
        self.discarded = False
        self.worker = None
        self.first_try_edge = None
        self.k = k
        self.t_gather = None
        self.emitted = []
        self.content = None
        self.t_ready_checked = False


class NodeLedger:
    def __init__(self, node, ntype):
        self.node = node
        self.type = ntype
        self.id = node.id
        self.units = []            # Unit, in pull order
        self.by_item = {}          # id(item) -> Unit (open units)
        self.pulls = []            # (t, in_idx, iid)
        self.pushes = []           # (t, out_idx, iid)
        self.discards = []         # (t, iid)
        self.first_tries_out = []  # out edge index of each unit's first attempt, in consultation order
        self.in_attempts = []      # in edge index of each pull attempt (non-FA)
        self.held = 0
        self.max_held = 0
        self.counter_events = defaultdict(list)   # stats key -> [(t, new)]
        self.tokens = {}           # TokRec -> (process, slice_no)
        self.created = 0
        self.blocked_intervals = 0
        self.discard_events = 0
        self.states_seen = set()
        self.cur_src_item = None
        self.inside = {}           # id(item) -> ItemState placed in this node (IN_NODE / CREATED)
        self.can_calls = 0
        self.gathering = None      # combiner: Unit being gathered
        self.put_batches = {}      # proc -> (slice, [(out idx, TokRec)])
        self.get_batches = {}
        self.fa_checks = 0
        self.n_ingredients = 0


class FactoryOracle:
    def __init__(self, mon, model, params=None):
        self.mon = mon
        self.env = mon.env
        self.m = model
        self.params = params or {}
        self.spec = model.spec
        self.items = {}            # id(item) -> ItemState
        self.keep = []
        self.ledgers = {}          # id(node) -> NodeLedger
        self.edge_of_store = {}    # id(store) -> edge
        self.edge_idx_out = {}     # id(edge) -> index in src.out_edges
        self.edge_idx_in = {}
        self.fleet_oracles = []
        self.conv_oracles = []
        self.slice_no = 0
        self.events = []           # compact event log (for samples / C19)
        self.finished = False
        self.pallets = []
        for nid, node in model.nodes.items():
            nt = NODE_TYPES[type(node).__name__]
            L = NodeLedger(node, nt)
            self.ledgers[id(node)] = L
            st = ObsDict(node.stats)
            st._cb = (lambda k, old, new, L=L: self.on_counter(L, k, old, new))
            node.stats = st
        for eid, edge in model.edges.items():
            store = getattr(edge, "inbuiltstore", None)
            if store is None:
                store = edge.belt
            self.edge_of_store[id(store)] = edge
            sh = mon.label(store, f"{eid}:{edge._spec['type']}", edge)
            if edge._spec["type"] == "fleet":
                self.fleet_oracles.append(FleetOracle(mon, sh, edge._spec["capacity"], edge._spec["delay"], edge._spec["transit"]))
            elif edge._spec["type"] == "conv":
                sp = edge._spec
                self.conv_oracles.append(ConveyorOracle(mon, sh, sp["L"] / sp["speed"], sp["item_length"] / sp["speed"],
                                                        int(round(sp["L"] / sp["item_length"])), sp["acc"], False))
            elif edge._spec["type"] == "slotconv":
                sp = edge._spec
                self.conv_oracles.append(ConveyorOracle(mon, sh, sp["capacity"] * sp["delay"], sp["delay"], sp["capacity"], sp["acc"], True))
        for nid, node in model.nodes.items():
            # edge indices are those of the declared order (constructor lists / order of the connect calls), not whatever the
            # node's lists hold now; a node whose lists are in another order routes "index i" to another edge than declared
            for side, lst, idx_map in (("out", node.out_edges or [], self.edge_idx_out), ("in", node.in_edges or [], self.edge_idx_in)):
                decl = getattr(model, "declared_" + side, {}).get(nid)
                if decl is not None and all(d in model.edges for d in decl):
                    actual = [getattr(e, "id", None) for e in lst]
                    if actual != decl:
                        mon.violation("C15", "edge_order_changed", f"{NODE_TYPES[type(node).__name__]}:{side}-edges-not-in-the-declared-order",
                                      {"node": nid, "declared": decl, "actual": actual})
                    for i, d in enumerate(decl):
                        idx_map[id(model.edges[d])] = i
                else:
                    for i, e in enumerate(lst):
                        idx_map[id(e)] = i
        self._patch_items()
        self.node_procs = defaultdict(list)
        self.ledger_by_id = {L.id: L for L in self.ledgers.values()}
        self.suspects = {}
        self.rng_consumers = 0
        mon.proc_hooks.append(self.on_proc)
        mon.can_hooks.append(self.on_can)
        mon.lost_wakeup_hooks.append(self.on_lost_wakeup)
        for p_ in self.env.mon_procs:
            self.on_proc(p_)
        mon.call_hooks.append(self.on_call)
        mon.precall_hooks.append(self.on_precall)
        mon.eoi_hooks.append(self.on_eoi)
        mon.slice_begin_hooks.append(self.on_slice_begin)

    # ------------------------------------------------------------------ item creation / packing
    def _patch_items(self):
        from factorysimpy.helper import baseflowitem, pallet as pallet_mod
        fo = self
        env = self.env
        B = baseflowitem.BaseFlowItem
        if not getattr(B, "_fsmon_patched", False):
            orig_init = B.__init__

            def init(self_, id_):
                orig_init(self_, id_)
                cb = getattr(B, "_fsmon_cb", None)
                if cb is not None:
                    cb(self_)
            B.__init__ = init
            B._fsmon_patched = True
            P = pallet_mod.Pallet
            orig_pinit = P.__init__

            def pinit(self_, id_):
                orig_pinit(self_, id_)
                cb = getattr(B, "_fsmon_pcb", None)
                if cb is not None:
                    cb(self_)
            P.__init__ = pinit
            orig_sc = B.set_creation
            orig_une = B.update_node_event

            def set_creation(self_, source_id, env_):
                orig_sc(self_, source_id, env_)
                cb = getattr(B, "_fsmon_stamp", None)
                if cb is not None:
                    cb(self_, "creation", self_.timestamp_creation)

            def update_node_event(self_, node_id, env_, event_type="entry"):
                orig_une(self_, node_id, env_, event_type)
                cb = getattr(B, "_fsmon_stamp", None)
                if cb is not None:
                    cb(self_, event_type, self_.timestamp_node_entry if event_type == "entry" else self_.timestamp_node_exit)
            B.set_creation = set_creation
            B.update_node_event = update_node_event
        B._fsmon_cb = self.on_create
        B._fsmon_pcb = self.on_create_pallet
        B._fsmon_stamp = self.on_stamp

    def owner(self):
        p = self.env.active_process
        if p is None:
            return None, None
        return getattr(p, "mon_owner", None), p

    def on_create(self, item):
        node, proc = self.owner()
        L = self.ledgers.get(id(node))
        kind = "pallet" if type(item).__name__ == "Pallet" else "item"
        st = ItemState(item, kind, L.id if L else None, self.env.now)
        self.items[id(item)] = st
        self.keep.append(item)
        if L is None or L.type != "source":
            self.mon.violation("C03", "item_invented", "factory:flow-item-created-outside-a-source",
                               {"item": item.id, "by": getattr(node, "id", None)})
        else:
            L.created += 1
            if L.cur_src_item is not None and L.cur_src_item.state == "CREATED":
                self.mon.violation("C03", "source_holds_two", "source:second-item-created-while-one-is-still-held",
                                   {"source": L.id, "held": L.cur_src_item.iid, "new": item.id})
                if getattr(L.node, "blocking", None):
                    # a blocking source went on to the next item without having delivered this one: it was discarded, uncounted
                    self.mon.violation("C09", "blocking_discarded", "source:blocking-source-abandoned-an-item-it-had-generated",
                                       {"source": L.id, "abandoned": L.cur_src_item.iid, "new": item.id})
            L.cur_src_item = st
        self.mon.counters["items_created"] += 1

    def on_stamp(self, item, kind, value):
        """C18: every timestamp written to an item is the current time and never smaller than an earlier one"""
        st = self.items.get(id(item))
        if st is None:
            return
        now = self.env.now
        self.mon.counters["c18_timestamps_checked"] += 1
        if value is None or abs(value - now) > tol(now):
            self.mon.violation("C18", "timestamp_not_now", f"item:{kind}-timestamp-differs-from-the-current-time",
                               {"item": st.iid, "kind": kind, "stamp": value, "now": now})
        if st.last_stamp is not None and value is not None and value < st.last_stamp - tol(now):
            self.mon.violation("C18", "timestamp_decreased", "item:timestamp-smaller-than-an-earlier-one",
                               {"item": st.iid, "kind": kind, "stamp": value, "previous": st.last_stamp})
        if value is not None:
            st.last_stamp = value
        st.stamps.append((kind, value))

    def on_create_pallet(self, pallet):
        # the observing list replaces the pallet's own list; keep aliasing visible: two pallets whose `items` are one and
        # the same list object (a shared default) would otherwise be silently separated by the instrumentation
        seen = getattr(self, "_pallet_lists", None)
        if seen is None:
            seen = self._pallet_lists = {}
        orig = pallet.items
        prev = seen.get(id(orig))
        if prev is not None and prev[0] is orig and prev[1] is not pallet:
            self.mon.violation("C03", "pallet_shares_items_list", "pallet:two-pallets-share-one-items-list:an-item-packed-in-one-is-in-both",
                               {"pallet": getattr(pallet, "id", None), "other": getattr(prev[1], "id", None)})
        seen[id(orig)] = (orig, pallet)
        ol = ObsList(pallet.items)
        ol._pallet = pallet
        ol._fo = self
        pallet.items = ol
        self.pallets.append(pallet)

    def on_pack(self, pallet, x):
        node, proc = self.owner()
        L = self.ledgers.get(id(node))
        sx = self.items.get(id(x))
        sp = self.items.get(id(pallet))
        nid = L.id if L else None
        if sx is None or sp is None:
            self.mon.violation("C03", "pack_unknown", "factory:packing-of-unknown-object", {"node": nid})
            return
        if sx.state != "IN_NODE" or sx.where != nid or sp.state != "IN_NODE" or sp.where != nid:
            self.mon.violation("C03", "pack_illegal", "combiner:packed-an-item-or-pallet-it-does-not-hold",
                               {"node": nid, "item": sx.iid, "item_state": (sx.state, sx.where), "pallet": sp.iid,
                                "pallet_state": (sp.state, sp.where)})
        self._set(sx, "PACKED", sp.iid)
        self.mon.counters["packs"] += 1
        self.events.append((self.env.now, "pack", nid, sp.iid, sx.iid))

    def on_unpack(self, pallet, x):
        node, proc = self.owner()
        L = self.ledgers.get(id(node))
        sx = self.items.get(id(x))
        sp = self.items.get(id(pallet))
        nid = L.id if L else None
        if sx is None or sp is None:
            return
        if sx.state != "PACKED" or sx.where != sp.iid or sp.state != "IN_NODE" or sp.where != nid:
            self.mon.violation("C03", "unpack_illegal", "splitter:unpacked-from-a-pallet-it-does-not-hold-or-item-not-packed-there",
                               {"node": nid, "item": sx.iid, "item_state": (sx.state, sx.where), "pallet_state": (sp.state, sp.where)})
        self._set(sx, "IN_NODE", nid)
        self.mon.counters["unpacks"] += 1
        self.events.append((self.env.now, "unpack", nid, sp.iid, sx.iid))
        u = L.by_item.get(id(pallet)) if L else None
        if u is not None:
            u.emitted.append(("unpacked", sx.iid))

    def _set(self, st, state, where):
        if st.state in ("IN_NODE", "CREATED"):
            Lo = self.ledger_by_id.get(st.where)
            if Lo is not None:
                Lo.inside.pop(id(st.item), None)
        st.hist.append((st.t_state, st.state, st.where))
        st.state = state
        st.where = where
        st.t_state = self.env.now
        if state in ("IN_NODE", "CREATED"):
            Ln = self.ledger_by_id.get(where)
            if Ln is not None:
                Ln.inside[id(st.item)] = st

    def on_lost_wakeup(self, sh, rec, why):
        """a node's own request stays pending although the edge could serve it: seen from the node this is
        stranded work (C10: 'takes it at that instant' / 'pushed at that instant')"""
        node = getattr(rec.owner, "mon_owner", None)
        L = self.ledgers.get(id(node))
        if L is None:
            return
        if rec.side == "get":
            self.mon.violation("C10", "available_item_not_taken", f"{L.type}:request-on-in-edge-pending-while-an-item-is-available-there",
                               {"node": L.id, "edge": sh.label, "why": why})
        else:
            self.mon.violation("C10", "finished_item_not_pushed", f"{L.type}:request-on-out-edge-pending-while-the-edge-has-room",
                               {"node": L.id, "edge": sh.label, "why": why})

    def on_proc(self, proc):
        node = getattr(proc, "mon_owner", None)
        if id(node) in self.ledgers:
            self.node_procs[id(node)].append(proc)

    def on_can(self, edge, op, res, exc):
        node, proc = self.owner()
        L = self.ledgers.get(id(node))
        if L is None:
            return
        L.can_calls += 1
        self.mon.counters["node_can_put_calls"] += 1
        if op == "can_put":
            u = self._unit_of_proc(L, proc)
            if u is not None:
                self._offer(L, u)
            self._attempt(L, proc, edge, res if exc is None else None)
            if exc is None:
                # C11: the answer must agree with the shadow model of the edge
                store = getattr(edge, "inbuiltstore", None)
                if store is not None:
                    sh = self.mon.shadow(store)
                    exp = sh.free() > 0
                    self.mon.counters["c11_node_can_put_checked"] += 1
                    if bool(res) != exp and L.node._spec.get("out_sel") == "FIRST_AVAILABLE":
                        # C15: FIRST_AVAILABLE decides from this answer: it picks an edge that cannot serve / skips one that can
                        self.mon.violation("C15", "first_available_out",
                                           f"{L.type}:FIRST_AVAILABLE-" + ("chose-an-edge-that-cannot-serve" if res else "skipped-an-edge-able-to-serve") + ":wrong-can_put-answer",
                                           {"node": L.id, "edge": edge.id, "answer": bool(res), "free": sh.free()})
                    if (not res and exp is False and L.node._spec.get("out_sel") == "FIRST_AVAILABLE" and sh.free_unleaked() > 0
                            and not any(not r.leaked for r in sh.pend["put"])):
                        # the only thing in the way is a reservation that an earlier availability query left behind (nobody holds it)
                        self.mon.violation("C15", "first_available_out",
                                           f"{L.type}:FIRST_AVAILABLE-skipped-an-edge-able-to-serve:place-taken-by-a-reservation-an-earlier-query-left-behind",
                                           {"node": L.id, "edge": edge.id, "held": len(sh.held), "cap": sh.cap})
                    if bool(res) != exp:
                        self.mon.violation("C11", "can_query_inexact", f"{sh.kind}:can_put={bool(res)}-but-free-space={sh.free()}",
                                           {"edge": edge.id, "held": len(sh.held), "granted_put": len(sh.grant["put"]), "cap": sh.cap})

    def _held_in_frame(self, proc, depth=1):
        """Flow items found among the arguments and locals of a process (and `depth`-1 parents) that the ledger places in
        the owning node (or, for a source, still held by it).  Used when the names the unchanged tree gives its variables
        are not there: the oracle must not depend on how a local variable is called."""
        out, seen = [], set()
        p = proc
        for _ in range(depth):
            if p is None:
                break
            owner = getattr(p, "mon_owner", None)
            L = self.ledgers.get(id(owner))
            vals = list((p.mon_args or {}).values()) + list(p.mon_locals().values())
            for v in vals:
                st = self.items.get(id(v))
                if st is None or id(v) in seen:
                    continue
                seen.add(id(v))
                if L is not None and st.where == L.id and st.state in ("IN_NODE", "CREATED"):
                    out.append(v)
            p = getattr(p, "mon_parent", None)
        # an item proper before the pallet that carries / carried it
        out.sort(key=lambda v: 0 if self.items[id(v)].kind == "item" else 1)
        return out

    def _item_of_proc(self, proc):
        if proc is None:
            return None
        x = None
        if proc.mon_name == "_push_item":
            a = proc.mon_args
            x = a.get("item_to_push")
            if x is None:
                x = a.get("item")
        else:
            x = proc.mon_locals().get("item")
        if x is None or id(x) not in self.items:
            held = self._held_in_frame(proc)
            x = held[0] if held else x
        return x

    def _attempt(self, L, proc, edge, can_result):
        x = self._item_of_proc(proc)
        st = self.items.get(id(x)) if x is not None else None
        if st is None:
            self.mon.counters["attempt_without_item"] += 1
            return
        idx = self.edge_idx_out.get(id(edge))
        if can_result is not None:
            st.can_log.append((idx, bool(can_result)))
        if st.out_try is None:
            st.out_try = idx
            L.first_tries_out.append(idx)

    def _delay_of(self, L, u):
        d = L.node._spec.get("delay")
        if d is None:
            return None
        if d["kind"] == "const":
            return d["seq"][0]
        sq = self.m.seqs.get(L.id + ".delay")
        if sq is None or u.k >= len(sq.log):
            return None
        return sq.log[u.k][1]

    def _offer(self, L, u):
        """first downstream offer of a unit (first reserve_put / can_put / discard by its worker)"""
        if u.t_off is not None:
            return
        now = self.env.now
        u.t_off = now
        d = self._delay_of(L, u)
        u.d = d
        if d is None:
            self.mon.counters["c08_offer_without_delay"] += 1
            return
        self.mon.counters["c08_offers_checked"] += 1
        if L.type in ("machine", "splitter"):
            exp = u.t_in + d
            if abs(now - exp) > tol(exp):
                self.mon.violation("C08", "offer_time", f"{L.type}:unit-offered-downstream-at-other-than-pull+delay",
                                   {"node": L.id, "t_in": u.t_in, "delay": d, "offered": now, "expected": exp})
        elif L.type == "combiner":
            if u.t_gather is None:
                self.mon.violation("C08", "offer_before_gather", "combiner:pallet-offered-before-all-ingredients-were-taken", {"node": L.id})
                return
            prev_out = None
            if u.k > 0:
                prev_out = L.units[u.k - 1].t_out
            hi = max(u.t_gather, prev_out if prev_out is not None else u.t_gather) + d
            if abs(now - hi) > tol(hi):
                # the combiner has one worker: processing of the next pallet starts when the ingredients are complete
                # AND the previous pallet has left (otherwise it would hold two units of work)
                self.mon.violation("C08", "offer_time", "combiner:pallet-offered-at-other-than-max(gather-complete,previous-pallet-left)+delay" +
                                   (":processed-while-previous-pallet-still-held" if now < hi else ""),
                                   {"node": L.id, "t_gather": u.t_gather, "prev_out": prev_out, "delay": d, "offered": now, "expected": hi})

    # ------------------------------------------------------------------ counters
    def on_counter(self, L, key, old, new):
        now = self.env.now
        L.counter_events[key].append((now, new))
        if key == "num_item_discarded":
            self.on_discard(L, old, new)

    def on_discard(self, L, old, new):
        mon = self.mon
        node, proc = self.owner()
        now = self.env.now
        L.discard_events += 1
        mon.counters["discards"] += 1
        if new - old != 1:
            mon.violation("C09", "discard_count_step", f"{L.type}:discard-counter-moved-by-other-than-one",
                          {"node": L.id, "old": old, "new": new})
        blocking = getattr(L.node, "blocking", None)
        if blocking:
            mon.violation("C09", "blocking_discarded", f"{L.type}:blocking-node-discarded-an-item", {"node": L.id, "t": now})
        # which item? the unit carried by the active process
        x = None
        if proc is not None:
            loc = proc.mon_locals()
            x = loc.get("item")
            if x is None:
                x = loc.get("item_to_push")
            if x is None or id(x) not in self.items:
                held = self._held_in_frame(proc)
                x = held[0] if held else x
        sx = self.items.get(id(x)) if x is not None else None
        if sx is None:
            mon.violation("C03", "discard_without_item", f"{L.type}:discard-counted-but-no-item-left-the-node", {"node": L.id})
            return
        ok = (sx.state == "IN_NODE" and sx.where == L.id) or (L.type == "source" and sx.state == "CREATED" and sx.where == L.id)
        if not ok:
            mon.violation("C03", "discard_illegal", f"{L.type}:discarded-an-item-it-does-not-hold",
                          {"node": L.id, "item": sx.iid, "state": (sx.state, sx.where)})
            if sx.state == "DISCARDED" and sx.where == L.id:
                mon.violation("C09", "discard_count_step", f"{L.type}:discard-counter-rose-more-than-once-for-one-dropped-item",
                              {"node": L.id, "item": sx.iid, "count": new})
                mon.violation("C18", "discarded_counter", f"{L.type}:discard-counter-rose-more-than-once-for-one-dropped-item",
                              {"node": L.id, "item": sx.iid, "count": new})
        self._set(sx, "DISCARDED", L.id)
        if ok:
            L.discards.append((now, sx.iid))      # only real drops count (C18: counter == items actually dropped)
        self.events.append((now, "discard", L.id, sx.iid))
        u0 = self._unit_of_proc(L, proc)
        if u0 is not None:
            self._offer(L, u0)
        u = L.by_item.pop(id(x), None)
        if L.type == "splitter":
            # the unit is the pallet being unloaded; x is one of its items or the pallet itself
            for uu in L.units:
                if uu.t_out is None and not uu.discarded:
                    uu.emitted.append(("discard", sx.iid))
                    if x is uu.x:
                        self._check_splitter_unit(L, uu)
                        uu.discarded = True
                        uu.t_out = now
                        L.held -= 1
                    break
        elif u is not None:
            u.discarded = True
            u.t_out = now
            L.held -= 1
        # C09: dropped although a permitted out-edge had room (state is exact: nothing ran since the decision)
        if not blocking:
            self._check_drop_despite_room(L, sx)

    def _permitted_out(self, L, u=None):
        node = L.node
        sel = node._spec.get("out_sel")
        outs = node.out_edges or []
        if sel == "FIRST_AVAILABLE":
            return list(range(len(outs)))
        last = None
        try:
            rec = node.stats.get("out_edge_selection")
            if rec:
                last = rec[-1]
        except Exception:
            pass
        if isinstance(sel, int):
            return [sel]
        if isinstance(sel, dict):
            s = self.m.seqs.get(L.id + ".out")
            if s is not None and s.log:
                return [s.log[-1][1]]
        if last is not None:
            return [last]
        return None     # unknown (Source records nothing for RANDOM / ROUND_ROBIN)

    def _check_drop_despite_room(self, L, sx):
        perm = self._permitted_out(L)
        outs = L.node.out_edges or []
        if perm is None:
            if L.type == "source" and L.node._spec.get("out_sel") == "ROUND_ROBIN":
                perm = [ (len(L.first_tries_out)) % len(outs) ] if outs else []
                return
            # weaker form: dropped => at least one out-edge without room
            if all(self._admits(e) for e in outs) and outs:
                self.mon.violation("C09", "dropped_despite_room", f"{L.type}:non-blocking-node-dropped-although-every-out-edge-had-room",
                                   {"node": L.id, "item": sx.iid})
            return
        room = [i for i in perm if 0 <= i < len(outs) and self._admits(outs[i])]
        if room:
            self.mon.violation("C09", "dropped_despite_room", f"{L.type}:non-blocking-node-dropped-although-permitted-out-edge-had-room",
                               {"node": L.id, "item": sx.iid, "edges_with_room": room, "policy": repr(L.node._spec.get("out_sel"))[:40]})

    def _free(self, edge):
        store = getattr(edge, "inbuiltstore", None)
        if store is None:
            store = edge.belt
        sh = self.mon.shadow(store)
        return sh.free()

    def _free_live(self, edge):
        """free space not counting granted space reservations whose owner process has ended (orphans)"""
        store = getattr(edge, "inbuiltstore", None)
        if store is None:
            store = edge.belt
        sh = self.mon.shadow(store)
        live = sum(1 for r in sh.grant["put"] if r.owner is None or r.owner.is_alive)
        return sh.cap - len(sh.held) - live

    def _admits(self, edge):
        store = getattr(edge, "inbuiltstore", None)
        if store is None:
            store = edge.belt
        return self.mon.shadow(store).admits_now()

    def _avail(self, edge):
        store = getattr(edge, "inbuiltstore", None)
        if store is None:
            store = edge.belt
        sh = self.mon.shadow(store)
        r = sh.ready()
        if r is None:
            return 0
        return len(r) - len(sh.grant["get"])

    # ------------------------------------------------------------------ store API events
    def on_slice_begin(self, proc):
        self.slice_no += 1

    def on_precall(self, sh, op, args):
        pass

    def on_call(self, sh, info, result, exc):
        if exc is not None:
            return
        op = info["op"]
        edge = sh.edge
        if edge is None:
            return
        node, proc = self.owner()
        L = self.ledgers.get(id(node))
        now = self.env.now
        if op == "put" and info.get("cls") == "ok":
            x = info.get("item")
            self.on_put(L, edge, x, proc, now)
        elif op == "get" and info.get("cls") == "ok":
            self.on_get(L, edge, result, proc, now)
        elif op in ("reserve_put", "reserve_get"):
            rec = info.get("rec")
            if L is not None and rec is not None:
                self.on_reserve(L, edge, op, rec, proc)

    def on_reserve(self, L, edge, op, rec, proc):
        # leaked reservations (C10 d): a process issues new reservations in a later slice while it still
        # has live tokens from an earlier slice
        live_old = [r for r, (p, sl) in L.tokens.items() if p is proc and r.state in ("pending", "granted") and sl != self.slice_no]
        if live_old and L.type not in ("combiner",):
            r0 = live_old[0]
            self.mon.violation("C10", "leaked_reservation", f"{L.type}:{proc.mon_name}:new-reservation-issued-while-an-older-one-is-neither-used-nor-cancelled",
                               {"node": L.id, "old_token": (r0.side, r0.sh.label, r0.state, r0.t_issue), "new": (rec.side, rec.sh.label)})
            for r in live_old:
                L.tokens.pop(r, None)
        L.tokens[rec] = (proc, self.slice_no)
        for r in [r for r in L.tokens if r.state in ("used", "cancelled")]:
            del L.tokens[r]
        if op == "reserve_put":
            # first offer of the unit carried by this process
            u = self._unit_of_proc(L, proc)
            if u is not None:
                self._offer(L, u)
                if u.first_try_edge is None:
                    u.first_try_edge = self.edge_idx_out.get(id(edge))
            self._attempt(L, proc, edge, None)
            # batch of put reservations issued in one slice (FIRST_AVAILABLE)
            b = L.put_batches.get(proc)
            if b is None or b[0] != self.slice_no:
                b = (self.slice_no, [])
                L.put_batches[proc] = b
            b[1].append((self.edge_idx_out.get(id(edge)), rec))
        else:
            sel = L.node._spec.get("in_sel")
            if sel is not None and sel != "FIRST_AVAILABLE":
                L.in_attempts.append(self.edge_idx_in.get(id(edge)))
            b = L.get_batches.get(proc)
            if b is None or b[0] != self.slice_no:
                b = (self.slice_no, [])
                L.get_batches[proc] = b
            b[1].append((self.edge_idx_in.get(id(edge)), rec))

    def _unit_of_proc(self, L, proc):
        if proc is None:
            return None
        p = proc
        for _ in range(3):
            loc = p.mon_args if p is not None else {}
            for key in ("item", "item_to_push", "pallet"):
                x = loc.get(key)
                if x is not None:
                    u = L.by_item.get(id(x))
                    if u is not None:
                        return u
            # splitter worker: current item is a local of the running frame
            cur = p.mon_locals()
            for key in ("item", "pallet"):
                x = cur.get(key)
                if x is not None:
                    u = L.by_item.get(id(x))
                    if u is not None:
                        return u
            p = getattr(p, "mon_parent", None)
            if p is None:
                break
        # names not found: any argument / local of the process chain that is the object of one of the node's open units
        p = proc
        for _ in range(3):
            if p is None:
                break
            for v in list((p.mon_args or {}).values()) + list(p.mon_locals().values()):
                u = L.by_item.get(id(v))
                if u is not None:
                    return u
            p = getattr(p, "mon_parent", None)
        return None

    def on_put(self, L, edge, x, proc, now):
        mon = self.mon
        sx = self.items.get(id(x))
        nid = L.id if L else None
        if sx is None:
            mon.violation("C03", "put_unknown_item", "factory:put-of-an-object-no-source-created", {"node": nid, "edge": edge.id})
            return
        legal = (sx.state == "IN_NODE" and sx.where == nid) or (sx.state == "CREATED" and sx.where == nid)
        if not legal:
            mon.violation("C03", "put_not_held", f"{L.type if L else '?'}:put-of-an-item-the-node-does-not-hold",
                          {"node": nid, "item": sx.iid, "state": (sx.state, sx.where), "edge": edge.id})
            if L is not None and sx.state == "DISCARDED" and sx.where == nid:
                # the node counted this item as discarded and now delivers it: the discard counter is untruthful (C18)
                for i_ in range(len(L.discards) - 1, -1, -1):
                    if L.discards[i_][1] == sx.iid:
                        del L.discards[i_]
                        break
                mon.violation("C18", "discarded_counter", f"{L.type}:item-counted-as-discarded-was-delivered", {"node": nid, "item": sx.iid})
        if edge.src_node is not (L.node if L else None):
            mon.violation("C03", "put_wrong_edge", "factory:put-into-an-edge-by-a-node-that-is-not-its-source",
                          {"node": nid, "edge": edge.id})
        if sx.t_first_put is None:
            sx.t_first_put = now
        self._set(sx, "IN_EDGE", edge.id)
        sx.last_edge = edge.id
        self.events.append((now, "put", edge.id, sx.iid))
        mon.counters["factory_puts"] += 1
        # C18: the stamps of an item that leaves a node follow its route: entry into this node not older than the
        # instant the node took it, exit from this node not older than that entry
        ex, en = getattr(x, "timestamp_node_exit", None), getattr(x, "timestamp_node_entry", None)
        typ = L.type if L else "?"
        if L is not None:
            mon.counters["c18_stamps_at_departure_checked"] += 1
            if L.type != "source":
                u0 = L.by_item.get(id(x))
                if u0 is not None and getattr(u0, "x", None) is x and getattr(u0, "t_in", None) is not None:
                    if en is None or en < u0.t_in - 1e-9:
                        mon.violation("C18", "timestamps", f"{typ}:item-leaves-the-node-with-an-entry-stamp-older-than-its-arrival-there",
                                      {"node": nid, "item": sx.iid, "entry_stamp": en, "arrived": u0.t_in, "now": now})
            if en is not None and (ex is None or ex < en - 1e-9):
                mon.violation("C18", "timestamps", f"{typ}:item-leaves-the-node-with-an-exit-stamp-older-than-its-entry-stamp",
                              {"node": nid, "item": sx.iid, "entry_stamp": en, "exit_stamp": ex, "now": now})
        if L is None:
            return
        idx = self.edge_idx_out.get(id(edge))
        L.pushes.append((now, idx, sx.iid))
        self._check_out_choice(L, proc, sx, idx)
        if L.type == "source":
            if L.cur_src_item is sx:
                L.cur_src_item = None
            return
        u = L.by_item.get(id(x))
        if L.type == "splitter":
            for uu in L.units:
                if uu.t_out is None and not uu.discarded:
                    if x is not uu.x:
                        already = [e for e in uu.emitted if e[0] in ("put", "discard") and e[1] == sx.iid]
                        if already:
                            mon.violation("C16", "splitter_emission", "splitter:emitted-items-differ-from-the-pallet-content:item-emitted-twice",
                                          {"node": L.id, "item": sx.iid, "pallet": getattr(uu.x, "id", None)})
                        elif uu.content is not None and sx.iid not in uu.content:
                            mon.violation("C16", "splitter_emission", "splitter:emitted-items-differ-from-the-pallet-content:foreign-item-emitted",
                                          {"node": L.id, "item": sx.iid, "pallet": getattr(uu.x, "id", None), "content": uu.content[:8]})
                    uu.emitted.append(("put", sx.iid, idx))
                    if x is uu.x:
                        self._check_splitter_unit(L, uu)
                        uu.t_out = now
                        uu.edge_out = idx
                        L.held -= 1
                        L.by_item.pop(id(x), None)
                    break
            return
        if u is not None:
            u.t_out = now
            u.edge_out = idx
            L.held -= 1
            L.by_item.pop(id(x), None)
            if u.t_off is not None and now > u.t_off + tol(now):
                L.blocked_intervals += 1
            if L.type == "combiner":
                self._check_recipe(L, u, x)

    def on_get(self, L, edge, x, proc, now):
        mon = self.mon
        sx = self.items.get(id(x))
        nid = L.id if L else None
        if sx is None:
            return
        if sx.state != "IN_EDGE" or sx.where != edge.id:
            mon.violation("C03", "get_not_in_edge", "factory:get-returned-an-item-the-ledger-does-not-place-in-that-edge",
                          {"edge": edge.id, "item": sx.iid, "state": (sx.state, sx.where)})
        if L is None or edge.dest_node is not L.node:
            mon.violation("C03", "get_wrong_node", "factory:get-from-an-edge-by-a-node-that-is-not-its-destination",
                          {"node": nid, "edge": edge.id})
        self.events.append((now, "get", edge.id, sx.iid))
        mon.counters["factory_gets"] += 1
        if L is None:
            return
        idx = self.edge_idx_in.get(id(edge))
        self._check_in_choice(L, proc, idx)
        sx.out_try = None
        sx.can_log = []
        sx.last_getter = nid
        if L.type == "sink":
            self._set(sx, "RECEIVED", nid)
            L.pulls.append((now, idx, sx.iid))
            sx.stamps.append(("received", now))
            return
        self._set(sx, "IN_NODE", nid)
        L.pulls.append((now, idx, sx.iid))
        if L.type == "combiner" and idx != 0:
            # ingredient: belongs to the pallet being gathered
            g = L.gathering
            if g is None:
                mon.violation("C16", "ingredient_without_pallet", "combiner:ingredient-taken-while-no-pallet-is-being-filled", {"node": L.id})
                return
            L.n_ingredients += 1
            if L.n_ingredients >= L.need:
                g.t_gather = now
                L.gathering = None
            return
        if L.type == "splitter" and L.units:
            pu = L.units[-1]
            if pu.t_out is None and not pu.discarded:
                mon.violation("C16", "splitter_pallet_not_emitted", "splitter:next-pallet-pulled-although-the-previous-pallet-was-never-emitted",
                              {"node": L.id, "pallet": getattr(pu.x, "id", None), "emitted": [e[1] for e in pu.emitted if e[0] != "unpacked"][-6:]})
                pu.t_out = now
                L.held -= 1
                L.by_item.pop(id(pu.x), None)
        u = Unit(x, now, idx, len(L.units))
        L.units.append(u)
        L.by_item[id(x)] = u
        L.held += 1
        if L.type == "combiner":
            # what the pallet already carries when it arrives (a pallet packed by an upstream combiner) is not this
            # combiner's doing: the recipe speaks of what *this* node adds
            u.content = [id(i) for i in getattr(x, "items", [])]
            recipe = L.node._spec["recipe"]
            L.need = sum(recipe[1:len(L.node.in_edges)])
            L.n_ingredients = 0
            if L.need == 0:
                u.t_gather = now
            else:
                L.gathering = u
        L.max_held = max(L.max_held, L.held)
        wc = getattr(L.node, "work_capacity", 1)
        if L.type == "machine" and L.held > wc:
            mon.violation("C08", "over_work_capacity", "machine:holds-more-items-than-work_capacity",
                          {"node": L.id, "held": L.held, "wc": wc})
        if L.type == "splitter" and sx.kind == "pallet":
            u.content = [getattr(i, "id", None) for i in x.items]

    # ------------------------------------------------------------------ C15 (at the instant of choice)
    def _check_out_choice(self, L, proc, sx, idx):
        mon = self.mon
        node = L.node
        sel = node._spec.get("out_sel")
        blocking = getattr(node, "blocking", True)
        if sel == "FIRST_AVAILABLE":
            if blocking:
                b = L.put_batches.get(proc)
                if b is not None:
                    L.fa_checks += 1
                    mon.counters["c15_fa_out_checks"] += 1
                    flagged = False
                    for j, rec in b[1]:
                        if j is not None and idx is not None and j < idx and rec.t_grant is not None:
                            mon.violation("C15", "first_available_out", f"{L.type}:FIRST_AVAILABLE-pushed-on-a-higher-index-edge-although-a-lower-one-was-granted",
                                          {"node": L.id, "used": idx, "lower_granted": j, "item": sx.iid})
                            flagged = True
                            break
                    if not flagged and idx is not None:
                        outs = node.out_edges or []
                        for j in range(min(idx, len(outs))):
                            e = outs[j]
                            if hasattr(e, "belt"):
                                continue
                            if self._free(e) <= 0 and self._free_live(e) > 0:
                                mon.violation("C15", "first_available_out", f"{L.type}:FIRST_AVAILABLE-pushed-on-a-higher-index-edge-although-a-lower-one-had-room:slot-held-by-orphan-reservation",
                                              {"node": L.id, "used": idx, "lower_with_room": j, "item": sx.iid})
                                break
            else:
                if sx.can_log:
                    L.fa_checks += 1
                    mon.counters["c15_fa_out_checks"] += 1
                    first_true = next((i for i, r in sx.can_log if r), None)
                    if first_true != idx:
                        mon.violation("C15", "first_available_out", f"{L.type}:FIRST_AVAILABLE-non-blocking-push-not-on-the-first-edge-that-could-accept",
                                      {"node": L.id, "used": idx, "can_log": sx.can_log, "item": sx.iid})
        else:
            if sx.out_try is not None and idx != sx.out_try:
                mon.violation("C15", "pushed_on_other_edge", f"{L.type}:item-pushed-on-an-edge-other-than-the-selected-one",
                              {"node": L.id, "selected": sx.out_try, "used": idx, "item": sx.iid})

    def _check_in_choice(self, L, proc, idx):
        mon = self.mon
        if L is None:
            return
        node = L.node
        sel = node._spec.get("in_sel") if L.type != "sink" else "FIRST_AVAILABLE"
        if L.type == "combiner":
            return
        b = L.get_batches.get(proc)
        if sel == "FIRST_AVAILABLE" and b is not None:
            mon.counters["c15_fa_in_checks"] += 1
            L.fa_checks += 1
            for j, rec in b[1]:
                if j is not None and idx is not None and j < idx and rec.t_grant is not None and rec.state != "used":
                    mon.violation("C15", "first_available_in", f"{L.type}:FIRST_AVAILABLE-pulled-from-a-higher-index-edge-although-a-lower-one-was-granted",
                                  {"node": L.id, "used": idx, "lower_granted": j})
                    break

    # ------------------------------------------------------------------ C16 (splitter)
    def _check_splitter_unit(self, L, u):
        """called when the incoming pallet itself is emitted (put or dropped): everything it carried must have
        been emitted exactly once before, and it must be empty now"""
        mon = self.mon
        mon.counters["c16_splitter_pallets_checked"] += 1
        content = list(u.content or [])
        outs = [e for e in u.emitted if e[0] in ("put", "discard")]
        pallet_id = getattr(u.x, "id", None)
        ids = [e[1] for e in outs]
        if ids and ids[-1] != pallet_id:
            mon.violation("C16", "splitter_pallet_not_last", "splitter:pallet-not-emitted-last", {"node": L.id, "emitted": ids[-6:]})
        items_out = [i for i in ids if i != pallet_id]
        if sorted(map(str, items_out)) != sorted(map(str, content)):
            missing = [c for c in content if c not in items_out]
            extra = [i for i in items_out if i not in content]
            dup = len(items_out) != len(set(items_out))
            mon.violation("C16", "splitter_emission", "splitter:emitted-items-differ-from-the-pallet-content" +
                          (":item-emitted-twice" if dup else "") + (":item-not-emitted" if missing else "") + (":foreign-item-emitted" if extra else ""),
                          {"node": L.id, "pallet": pallet_id, "content": content[:8], "emitted": items_out[:8]})
        left = [getattr(i, "id", None) for i in getattr(u.x, "items", [])]
        if left:
            mon.violation("C16", "splitter_pallet_not_empty", "splitter:pallet-emitted-while-still-carrying-items",
                          {"node": L.id, "pallet": pallet_id, "still_on_pallet": left[:6], "content": content[:8],
                           "blocking": L.node._spec.get("blocking"), "out_sel": repr(L.node._spec.get("out_sel"))[:30]})

    # ------------------------------------------------------------------ C16
    def _check_recipe(self, L, u, pallet):
        mon = self.mon
        recipe = L.node._spec["recipe"]
        mon.counters["c16_pallets_checked"] += 1
        sp = self.items.get(id(pallet))
        if sp is None or sp.kind != "pallet":
            mon.violation("C16", "combiner_output_not_pallet", "combiner:output-is-not-a-pallet", {"node": L.id})
            return
        # the pallet must have come from in-edge 0 in this cycle
        if u.edge_in != 0:
            mon.violation("C16", "pallet_not_from_first_edge", "combiner:pallet-not-taken-from-in-edge-0", {"node": L.id, "edge": u.edge_in})
        got = Counter()
        ins = L.node.in_edges
        preloaded = set(u.content or ())
        for it in pallet.items:
            if id(it) in preloaded:
                continue
            si = self.items.get(id(it))
            if si is None or si.state != "PACKED" or si.where != sp.iid:
                mon.violation("C16", "content_not_packed_here", "combiner:pallet-carries-an-object-the-ledger-does-not-place-in-it",
                              {"node": L.id, "item": getattr(it, "id", None)})
                continue
            # source edge of the item: the edge it was last got from, by this combiner
            idx = None
            for i, e in enumerate(ins):
                if e.id == si.last_edge:
                    idx = i
            if si.last_getter != L.id or idx is None:
                mon.violation("C16", "content_foreign", "combiner:pallet-carries-an-item-not-taken-from-one-of-its-in-edges",
                              {"node": L.id, "item": si.iid, "last_edge": si.last_edge})
                continue
            got[idx] += 1
        want = {i: recipe[i] for i in range(1, len(recipe)) if i < len(ins)}
        for i in set(want) | set(got):
            if got.get(i, 0) != want.get(i, 0):
                mon.violation("C16", "recipe_mismatch", "combiner:pallet-content-differs-from-recipe",
                              {"node": L.id, "edge": i, "have": got.get(i, 0), "want": want.get(i, 0), "recipe": recipe})
                break

    # ------------------------------------------------------------------ end of instant
    def _refs(self, L):
        node = L.node
        refs = set()
        for v in list(vars(node).values()):
            if v is not None and id(v) in self.items:
                refs.add(id(v))
        procs = self.node_procs.get(id(node), [])
        alive = []
        for p in procs:
            if p.is_alive:
                alive.append(p)
                for v in p.mon_locals().values():
                    refs.add(id(v))
        if len(alive) != len(procs):
            self.node_procs[id(node)] = alive
        return refs

    def _suspect(self, key, now, prop, check, mech, detail):
        if prop == "C18" and check in ("generated_counter", "discarded_counter", "received_counter"):
            # the same mismatch breaks the identity generated = in edges + in nodes + packed + discarded + received (C03)
            self._suspect(("c03",) + tuple(key), now, "C03", "sum_identity_" + check, mech + ":breaks-the-conservation-identity", detail)
        """persistence margin for 'must have happened by now' checks (DESIGN section 6)"""
        t0 = self.suspects.get(key)
        self._live.add(key)
        if t0 is None:
            self.suspects[key] = now
        elif now > t0 + PERSIST and t0 != float("inf"):
            detail = dict(detail)
            detail["since"] = t0
            detail["now"] = now
            self.mon.violation(prop, check, mech, detail)
            self.suspects[key] = float("inf")

    def on_eoi(self, now):
        mon = self.mon
        self._live = set()
        for L in self.ledgers.values():
            node = L.node
            if not isinstance(node.stats, ObsDict):
                # the node replaced its statistics dictionary (e.g. re-created it in reset()): observe the new one
                st = ObsDict(node.stats)
                st._cb = (lambda k, old, new, L=L: self.on_counter(L, k, old, new))
                node.stats = st
                mon.counters["stats_dict_rewrapped"] += 1
            # ---------------- C03: every item the ledger places in the node is really held by it
            if L.inside:
                refs = self._refs(L)
                for st in L.inside.values():
                    mon.counters["c03_inside_checks"] += 1
                    if id(st.item) not in refs:
                        mon.violation("C03", "item_vanished", f"{L.type}:item-in-node-is-no-longer-referenced-by-the-node",
                                      {"node": L.id, "item": st.iid, "since": st.t_state})
                        if getattr(node, "blocking", None) and L.type != "sink":
                            mon.violation("C09", "blocking_discarded", f"{L.type}:blocking-node-let-go-of-an-item-it-had-taken-in",
                                          {"node": L.id, "item": st.iid, "since": st.t_state})
            # ---------------- counters (C18 / C03)
            stt = node.stats
            if L.type == "source":
                if stt.get("num_item_generated") != L.created:
                    self._suspect(("gen", L.id), now, "C18", "generated_counter", "source:num_item_generated!=items-created",
                                  {"node": L.id, "reported": stt.get("num_item_generated"), "created": L.created})
            if "num_item_discarded" in stt and stt.get("num_item_discarded") != len(L.discards):
                self._suspect(("disc", L.id), now, "C18", "discarded_counter", f"{L.type}:num_item_discarded!=items-dropped",
                              {"node": L.id, "reported": stt.get("num_item_discarded"), "dropped": len(L.discards)})
            if L.type == "sink" and stt.get("num_item_received") != len(L.pulls):
                self._suspect(("recv", L.id), now, "C18", "received_counter", "sink:num_item_received!=items-taken",
                              {"node": L.id, "reported": stt.get("num_item_received"), "taken": len(L.pulls)})
            if L.type in ("machine", "splitter", "combiner") and stt.get("num_item_processed") != len(L.pushes):
                self._suspect(("proc", L.id), now, "C18", "processed_counter", f"{L.type}:num_item_processed!=items-pushed",
                              {"node": L.id, "reported": stt.get("num_item_processed"), "pushed": len(L.pushes)})
            blocking = getattr(node, "blocking", True)
            # ---------------- C09: a non-blocking node never waits with a finished item
            if not blocking:
                if L.type == "source":
                    st = L.cur_src_item
                    if st is not None and st.state == "CREATED" and now > st.t_created + PERSIST:
                        self._suspect(("wait", L.id, st.iid), now, "C09", "nonblocking_waited", "source:non-blocking-source-holds-a-generated-item-across-instants",
                                      {"node": L.id, "item": st.iid, "created": st.t_created})
                else:
                    for u in L.by_item.values():
                        d = u.d if u.d is not None else self._delay_of(L, u)
                        if L.type == "combiner":
                            ready = u.t_off
                        else:
                            ready = None if d is None else u.t_in + d
                        if ready is not None and now > ready + PERSIST + tol(ready):
                            self._suspect(("wait", L.id, u.k), now, "C09", "nonblocking_waited", f"{L.type}:non-blocking-node-still-holds-a-finished-unit",
                                          {"node": L.id, "unit": getattr(u.x, "id", None), "ready": ready})
            # ---------------- C10 (c): finished unit, permitted out-edge with room (non-belt edges)
            if L.type in ("machine", "splitter", "combiner"):
                outs = node.out_edges or []
                for u in L.by_item.values():
                    if u.t_off is None or now < u.t_off:
                        continue
                    sel = node._spec.get("out_sel")
                    if sel == "FIRST_AVAILABLE":
                        perm = range(len(outs))
                    elif L.type == "splitter":
                        perm = ()
                    else:
                        perm = (u.first_try_edge,) if u.first_try_edge is not None else ()
                    for i in perm:
                        e = outs[i]
                        if hasattr(e, "belt"):
                            continue
                        mon.counters["c10_out_checks"] += 1
                        if self._free_live(e) > 0:
                            orphan = self._free(e) <= 0
                            self._suspect(("out", L.id, u.k, i), now, "C10", "finished_item_not_pushed",
                                          f"{L.type}:finished-unit-held-although-permitted-out-edge-has-room" + (":slot-held-by-orphan-reservation" if orphan else ""),
                                          {"node": L.id, "unit": getattr(u.x, "id", None), "edge": e.id, "t_off": u.t_off})
                            self._suspect(("out8", L.id, u.k, i), now, "C08", "left_late_despite_room",
                                          f"{L.type}:unit-stays-after-its-delay-although-a-permitted-out-edge-can-accept-it" + (":slot-held-by-orphan-reservation" if orphan else ""),
                                          {"node": L.id, "unit": getattr(u.x, "id", None), "edge": e.id, "t_off": u.t_off})
            if blocking and L.type == "source":
                st = L.cur_src_item
                if st is not None and st.state == "CREATED":
                    outs = node.out_edges or []
                    if node._spec.get("out_sel") == "FIRST_AVAILABLE":
                        for e in outs:
                            if not hasattr(e, "belt") and self._free(e) > 0:
                                self._suspect(("srcout", L.id, st.iid, e.id), now, "C10", "finished_item_not_pushed",
                                              "source:generated-item-held-although-an-out-edge-has-room",
                                              {"node": L.id, "item": st.iid, "edge": e.id})
            # ---------------- C10 (a)/(b): free worker and available item on a permitted in-edge
            ins = node.in_edges or []
            if L.type == "sink":
                for e in ins:
                    mon.counters["c10_in_checks"] += 1
                    if self._avail(e) > 0:
                        self._suspect(("sinkin", L.id, e.id), now, "C10", "available_item_not_taken", "sink:ready-item-left-in-an-in-edge",
                                      {"node": L.id, "edge": e.id, "avail": self._avail(e)})
            elif L.type in ("machine", "splitter") and node._spec.get("in_sel") == "FIRST_AVAILABLE":
                setup = node._spec.get("setup", 0)
                wc = getattr(node, "work_capacity", 1) if L.type == "machine" else 1
                if now >= setup and L.held < wc:
                    for e in ins:
                        mon.counters["c10_in_checks"] += 1
                        if self._avail(e) > 0:
                            self._suspect(("in", L.id, e.id), now, "C10", "available_item_not_taken",
                                          f"{L.type}:free-worker-and-available-item-on-an-in-edge",
                                          {"node": L.id, "edge": e.id, "held": L.held, "wc": wc})
            # ---------------- C10: granted reservations that are not used in the granting instant
            for rec, (proc, sl) in list(L.tokens.items()):
                if rec.state in ("used", "cancelled"):
                    del L.tokens[rec]
                    continue
                if rec.state == "granted" and now > rec.t_grant + PERSIST:
                    if rec.side == "get" and L.type == "splitter" and L.held >= 1:
                        continue      # legitimately waits for its single worker
                    self._suspect(("tok", id(rec)), now, "C10", "granted_reservation_unused",
                                  f"{L.type}:{proc.mon_name}:granted-{rec.side}-reservation-neither-used-nor-cancelled",
                                  {"node": L.id, "edge": rec.sh.label, "granted": rec.t_grant})
                if not proc.is_alive and rec.state in ("pending", "granted"):
                    self._suspect(("dead", id(rec)), now, "C10", "leaked_reservation",
                                  f"{L.type}:{proc.mon_name}:process-ended-leaving-a-live-reservation",
                                  {"node": L.id, "edge": rec.sh.label, "state": rec.state})
        # ---------------- C11: reported occupancy of every edge = in-transit + ready items
        for eid, edge in self.m.edges.items():
            occ = None
            for name in ("occupancy", "get_occupancy", "belt_occupancy"):
                f = getattr(edge, name, None)
                if f is None:
                    continue
                try:
                    occ = f()
                    break
                except NotImplementedError:
                    continue
            if occ is None:
                continue
            store = getattr(edge, "inbuiltstore", None)
            if store is None:
                store = edge.belt
            sh = mon.shadow(store)
            mon.counters["c11_occupancy_checks"] += 1
            if occ != len(sh.held) and not sh.dead:
                mon.violation("C11", "occupancy_wrong", f"{sh.kind}:reported-occupancy!=in-transit+ready",
                              {"edge": eid, "reported": occ, "held": len(sh.held)})
        for k in [k for k in self.suspects if k not in self._live]:
            del self.suspects[k]

    # ------------------------------------------------------------------ end of run
    def finish(self, exc):
        if self.finished:
            return
        self.finished = True
        mon = self.mon
        now = self.env.now
        T = self.spec["T"]
        for fo in self.fleet_oracles:
            fo.finish(now)
        for co in self.conv_oracles:
            co.finish(now)
        crashed = exc is not None
        self.crashed = crashed
        if crashed or getattr(self, "injected", False):
            return
        for L in self.ledgers.values():
            self._finish_policies(L)
            self._finish_delays(L)
        self._finish_buffer_delays()
        self._finish_state_times(T)
        self._finish_edge_stats(T)
        self._finish_sinks()
        if self.spec["variant"] == "finite":
            self._finish_quiescence(T)

    # ---------------------------------------------------------------- C15 at the end of the run
    def _finish_policies(self, L):
        mon = self.mon
        node = L.node
        spec = node._spec
        outs = node.out_edges or []
        ins = node.in_edges or []
        osel = spec.get("out_sel")
        isel = spec.get("in_sel")
        tries = L.first_tries_out
        if osel is not None and len(outs) >= 1 and tries:
            mon.counters["c15_nodes_out_checked"] += 1
            n = len(outs)
            if osel == "ROUND_ROBIN":
                exp = [i % n for i in range(len(tries))]
                if tries != exp:
                    k = next(i for i in range(len(tries)) if tries[i] != exp[i])
                    mon.violation("C15", "round_robin_out", f"{L.type}:ROUND_ROBIN-out-sequence-not-cyclic",
                                  {"node": L.id, "n": n, "at": k, "got": tries[max(0, k - 3):k + 3], "expected": exp[max(0, k - 3):k + 3]})
            elif isinstance(osel, int):
                if any(t != osel for t in tries):
                    mon.violation("C15", "constant_out", f"{L.type}:constant-out-edge-index-not-obeyed", {"node": L.id, "k": osel, "got": tries[:8]})
            elif isinstance(osel, dict):
                sq = self.m.seqs.get(L.id + ".out")
                vals = [v for _, v in sq.log]
                if len(vals) != len(tries):
                    mon.violation("C15", "selector_consultations_out", f"{L.type}:out-selector-not-consulted-exactly-once-per-item",
                                  {"node": L.id, "consultations": len(vals), "items": len(tries)})
                elif vals != tries:
                    mon.violation("C15", "selector_answer_out", f"{L.type}:out-selector-answer-not-obeyed", {"node": L.id, "answers": vals[:8], "used": tries[:8]})
            rec = node.stats.get("out_edge_selection")
            if rec is not None and L.type != "source":
                rec = list(rec)
                if osel == "FIRST_AVAILABLE":
                    if getattr(node, "blocking", True):
                        obs = [i for (_, i, _) in L.pushes]
                        if rec != obs:
                            mon.violation("C15", "recorded_out_history", f"{L.type}:recorded-out_edge_selection-differs-from-actual-routing",
                                          {"node": L.id, "recorded": rec[:10], "actual": obs[:10], "lens": (len(rec), len(obs))})
                    else:
                        self.mon.counters["c15_nonblocking_fa_records_nothing"] += (1 if not rec and L.pushes else 0)
                else:
                    if rec != tries:
                        mon.violation("C15", "recorded_out_history", f"{L.type}:recorded-out_edge_selection-differs-from-actual-routing",
                                      {"node": L.id, "recorded": rec[:10], "actual": tries[:10], "lens": (len(rec), len(tries))})
        if isel is not None and len(ins) >= 1:
            n = len(ins)
            att = L.in_attempts
            pulls = [i for (_, i, _) in L.pulls]
            mon.counters["c15_nodes_in_checked"] += 1
            if isel == "ROUND_ROBIN":
                exp = [i % n for i in range(len(att))]
                if att != exp:
                    mon.violation("C15", "round_robin_in", f"{L.type}:ROUND_ROBIN-in-sequence-not-cyclic", {"node": L.id, "n": n, "got": att[:10]})
            elif isinstance(isel, int):
                if any(t != isel for t in att):
                    mon.violation("C15", "constant_in", f"{L.type}:constant-in-edge-index-not-obeyed", {"node": L.id, "k": isel, "got": att[:8]})
            elif isinstance(isel, dict):
                sq = self.m.seqs.get(L.id + ".in")
                vals = [v for _, v in sq.log]
                if len(vals) != len(att):
                    mon.violation("C15", "selector_consultations_in", f"{L.type}:in-selector-not-consulted-exactly-once-per-pull",
                                  {"node": L.id, "consultations": len(vals), "attempts": len(att), "pulls": len(pulls)})
                elif vals != att:
                    mon.violation("C15", "selector_answer_in", f"{L.type}:in-selector-answer-not-obeyed", {"node": L.id, "answers": vals[:8], "used": att[:8]})
            if isel != "FIRST_AVAILABLE":
                if pulls != att[:len(pulls)] or len(att) - len(pulls) > 1:
                    mon.violation("C15", "pulled_from_other_edge", f"{L.type}:pull-not-from-the-selected-in-edge",
                                  {"node": L.id, "attempts": att[:10], "pulls": pulls[:10]})
            rec = node.stats.get("in_edge_selection")
            if rec is not None:
                rec = list(rec)
                if rec[:len(pulls)] != pulls or len(rec) - len(pulls) > 1:
                    mon.violation("C15", "recorded_in_history", f"{L.type}:recorded-in_edge_selection-differs-from-actual-pulls",
                                  {"node": L.id, "recorded": rec[:10], "actual": pulls[:10], "lens": (len(rec), len(pulls))})

    # ---------------------------------------------------------------- C08 delay consultations
    def _finish_delays(self, L):
        mon = self.mon
        if L.type not in ("machine", "splitter", "combiner"):
            return
        d = L.node._spec["delay"]
        units = L.units if L.type != "combiner" else [u for u in L.units if u.t_gather is not None]
        rec = L.node.stats.get("processing_delay")
        if d["kind"] == "const":
            vals = [d["seq"][0]] * len(units)
        else:
            sq = self.m.seqs[L.id + ".delay"]
            vals = [v for _, v in sq.log]
            mon.counters["c08_delay_consultations"] += len(vals)
            if len(vals) != len(units):
                mon.violation("C08", "delay_consultations", f"{L.type}:processing-delay-not-drawn-exactly-once-per-unit",
                              {"node": L.id, "draws": len(vals), "units": len(units)})
                return
            for (t, v), u in zip(sq.log, units):
                ref = u.t_in if L.type != "combiner" else u.t_gather
                if abs(t - ref) > tol(ref):
                    mon.violation("C08", "delay_drawn_late", f"{L.type}:processing-delay-drawn-at-another-instant-than-the-pull",
                                  {"node": L.id, "drawn": t, "pulled": ref})
                    break
        if rec is not None and list(rec) != vals:
            if not (L.type == "combiner" and list(rec) == vals[:len(rec)] and len(vals) - len(rec) <= 1):
                mon.violation("C08", "recorded_delays", f"{L.type}:stats-processing_delay-differs-from-the-values-drawn",
                              {"node": L.id, "recorded": list(rec)[:8], "drawn": vals[:8], "lens": (len(rec), len(vals))})

    def _finish_buffer_delays(self):
        mon = self.mon
        for eid, edge in self.m.edges.items():
            if not edge._spec["type"].startswith("buffer"):
                continue
            sh = mon.shadow(edge.inbuiltstore)
            d = edge._spec["delay"]
            seen = sh.delays_log
            if d["kind"] == "const":
                vals = [d["seq"][0]] * len(seen)
            else:
                vals = [v for _, v in self.m.seqs[eid + ".delay"].log]
            mon.counters["c11_delay_draws_checked"] += len(seen)
            if vals != seen:
                mon.violation("C11", "buffer_delay_draws", "buffer:delay-source-not-consulted-once-per-put-or-other-value-travels-with-the-item",
                              {"edge": eid, "drawn": vals[:8], "with_items": seen[:8], "lens": (len(vals), len(seen))})

    # ---------------------------------------------------------------- C17
    def _finish_state_times(self, T):
        mon = self.mon
        for L in self.ledgers.values():
            node = L.node
            try:
                mon.suppress = True
                node.update_final_state_time(T)
            except Exception as e:
                mon.suppress = False
                mon.violation("C17", "finalise_crashed", f"{L.type}:update_final_state_time-raised:{type(e).__name__}",
                              {"node": L.id, "T": T, "setup": node._spec.get("setup"), "exc": repr(e)[:200]})
                continue
            finally:
                mon.suppress = False
            tt = node.stats.get("total_time_spent_in_states", {})
            eps = 1e-6 * max(1.0, T)
            mon.counters["c17_nodes_checked"] += 1
            if any(v < -eps for v in tt.values()):
                mon.violation("C17", "negative_state_time", f"{L.type}:negative-state-time", {"node": L.id, "times": dict(tt)})
            setup = node._spec.get("setup", 0) if L.type != "source" else 0
            if L.type in ("source", "sink", "splitter", "combiner"):
                tot = sum(tt.values())
                if abs(tot - T) > eps:
                    mon.violation("C17", "state_times_do_not_add_up", f"{L.type}:state-times-do-not-add-up-to-T",
                                  {"node": L.id, "sum": tot, "T": T, "times": dict(tt), "setup": setup})
            if L.type == "machine":
                a = tt.get("SETUP_STATE", 0) + tt.get("IDLE_STATE", 0) + tt.get("ATLEAST_ONE_PROCESSING_STATE", 0) + tt.get("ALL_ACTIVE_BLOCKED_STATE", 0)
                b = tt.get("SETUP_STATE", 0) + tt.get("IDLE_STATE", 0) + tt.get("ALL_ACTIVE_PROCESSING_STATE", 0) + tt.get("ATLEAST_ONE_BLOCKED_STATE", 0)
                occ = sum(getattr(node, "time_per_work_occupancy", []) or [0])
                for name, val in (("group_A", a), ("group_B", b), ("worker_occupancy", occ)):
                    if abs(val - T) > eps:
                        mon.violation("C17", "state_times_do_not_add_up", f"machine:{name}-does-not-add-up-to-T",
                                      {"node": L.id, "sum": val, "T": T, "times": dict(tt), "setup": setup})
            if L.type in ("machine", "splitter", "combiner"):
                exp_setup = min(setup, T)
                if abs(tt.get("SETUP_STATE", 0) - exp_setup) > eps:
                    mon.violation("C17", "setup_not_charged", f"{L.type}:SETUP_STATE-time!=min(node_setup_time,T)",
                                  {"node": L.id, "reported": tt.get("SETUP_STATE", 0), "expected": exp_setup})
            # independent integration from pulls / offers / pushes
            self._integrate(L, T, tt, eps)
            for k, v in tt.items():
                if v > eps:
                    L.states_seen.add(k)

    def _integrate(self, L, T, tt, eps):
        mon = self.mon
        node = L.node
        if L.type == "source":
            blocked = 0.0
            for st in self.items.values():
                if st.source == L.id:
                    t1 = st.t_first_put
                    if st.state == "CREATED":
                        t1 = T
                    elif st.state == "DISCARDED" and st.t_first_put is None:
                        t1 = st.t_created
                    if t1 is not None:
                        blocked += max(0.0, min(t1, T) - st.t_created)
            rep = tt.get("BLOCKED_STATE", 0)
            mon.counters["c17_integrations"] += 1
            if abs(rep - blocked) > eps * 10:
                mon.violation("C17", "blocked_time_untruthful", "source:BLOCKED_STATE-time!=time-spent-holding-a-generated-item",
                              {"node": L.id, "reported": rep, "measured": blocked, "T": T})
            return
        if L.type in ("splitter", "combiner"):
            setup = min(node._spec.get("setup", 0), T)
            proc = blk = 0.0
            for u in L.units:
                if L.type == "splitter":
                    a = u.t_in
                else:
                    if u.t_gather is None:
                        continue
                    prev = L.units[u.k - 1].t_out if u.k > 0 else None
                    a = max(u.t_gather, prev) if prev is not None else u.t_gather
                    if prev is None and u.k > 0:
                        continue      # previous pallet still blocked at T: this one never started
                d = self._delay_of(L, u)
                t_off = u.t_off if u.t_off is not None else (min(T, a + d) if d is not None else T)
                t_out = u.t_out if u.t_out is not None else T
                proc += max(0.0, min(t_off, T) - min(a, T))
                blk += max(0.0, min(t_out, T) - min(t_off, T))
            idle = T - setup - proc - blk
            mon.counters["c17_integrations"] += 1
            for k, mv in (("PROCESSING_STATE", proc), ("BLOCKED_STATE", blk), ("IDLE_STATE", idle)):
                if abs(tt.get(k, 0) - mv) > eps * 10:
                    mon.violation("C17", "state_time_untruthful", f"{L.type}:{k}-time-differs-from-measured-activity",
                                  {"node": L.id, "state": k, "reported": tt.get(k, 0), "measured": mv, "T": T, "setup": setup,
                                   "blocking": node._spec.get("blocking"), "units": len(L.units)})
                    break
            return
        if L.type != "machine":
            return
        setup = node._spec.get("setup", 0)
        ev = []
        for u in L.units:
            t_off = u.t_off
            t_out = u.t_out
            if t_off is None:
                d = self._delay_of(L, u)
                t_off = min(T, u.t_in + d) if d is not None else T
                if t_off < T:
                    t_off = T if u.t_out is None and u.t_off is None and (u.t_in + (d or 0)) > T else t_off
            if t_out is None:
                t_out = T
            t_off = min(t_off, T)
            t_out = min(t_out, T)
            ev.append((u.t_in, 1, 0))
            ev.append((t_off, -1, 1))
            ev.append((t_out, 0, -1))
        ev_raw = list(ev)
        ev.sort(key=lambda e: e[0])
        meas = Counter()
        t = min(setup, T)
        meas["SETUP_STATE"] = t
        p = b = 0
        i = 0
        times = sorted({e[0] for e in ev} | {T})
        cur = t
        for tn in times:
            if tn > cur:
                dt = tn - cur
                if p == 0 and b == 0:
                    meas["IDLE_STATE"] += dt
                if p > 0:
                    meas["ATLEAST_ONE_PROCESSING_STATE"] += dt
                if p > 0 and b == 0:
                    meas["ALL_ACTIVE_PROCESSING_STATE"] += dt
                if b > 0:
                    meas["ATLEAST_ONE_BLOCKED_STATE"] += dt
                if b > 0 and p == 0:
                    meas["ALL_ACTIVE_BLOCKED_STATE"] += dt
                cur = tn
            while i < len(ev) and ev[i][0] <= tn:
                p += ev[i][1]
                b += ev[i][2]
                i += 1
        mon.counters["c17_integrations"] += 1
        # documented per-thread totals and the mirror attributes of the state totals
        wc = node._spec.get("wc", 1) or 1
        tp = tb = 0.0
        for j in range(0, len(ev_raw), 3):
            tp += max(0.0, ev_raw[j + 1][0] - ev_raw[j][0])
            tb += max(0.0, ev_raw[j + 2][0] - ev_raw[j + 1][0])
        for name, meas_v in (("per_thread_total_time_in_processing_state", tp / wc), ("per_thread_total_time_in_blocked_state", tb / wc)):
            rep = getattr(node, name, None)
            if rep is not None:
                mon.counters["c17_per_thread_totals_checked"] += 1
                if abs(rep - meas_v) > eps * 10:
                    mon.violation("C17", "per_thread_time_untruthful", f"machine:{name}-differs-from-measured-activity",
                                  {"node": L.id, "reported": rep, "measured": meas_v, "T": T, "wc": wc, "blocking": node._spec.get("blocking")})
        for attr, k in (("total_time_idle", "IDLE_STATE"), ("total_time_setup", "SETUP_STATE"), ("total_time_all_blocked", "ALL_ACTIVE_BLOCKED_STATE"),
                        ("total_time_all_processing", "ALL_ACTIVE_PROCESSING_STATE"), ("total_time_atleast_one_blocked", "ATLEAST_ONE_BLOCKED_STATE"),
                        ("total_time_atleast_one_processing", "ATLEAST_ONE_PROCESSING_STATE")):
            rep = getattr(node, attr, None)
            if rep is not None:
                mon.counters["c17_mirror_attributes_checked"] += 1
                if abs(rep - tt.get(k, 0)) > eps * 10:
                    mon.violation("C17", "mirror_attribute_differs", f"machine:{attr}-differs-from-stats-{k}",
                                  {"node": L.id, "attribute": rep, "stats": tt.get(k, 0), "T": T})
        for k in ("IDLE_STATE", "ATLEAST_ONE_PROCESSING_STATE", "ALL_ACTIVE_PROCESSING_STATE", "ATLEAST_ONE_BLOCKED_STATE", "ALL_ACTIVE_BLOCKED_STATE"):
            if abs(tt.get(k, 0) - meas[k]) > eps * 10:
                mon.violation("C17", "state_time_untruthful", f"machine:{k}-time-differs-from-measured-activity",
                              {"node": L.id, "state": k, "reported": tt.get(k, 0), "measured": meas[k], "T": T, "wc": node._spec.get("wc"),
                               "blocking": node._spec.get("blocking")})
                break

    # ---------------------------------------------------------------- C18
    def _finish_edge_stats(self, T):
        mon = self.mon
        for eid, edge in self.m.edges.items():
            t = edge._spec["type"]
            try:
                mon.suppress = True
                if t.startswith("buffer"):
                    edge.update_final_buffer_avg_content(T)
                    key = "time_averaged_num_of_items_in_buffer"
                elif t == "fleet":
                    edge.update_final_fleet_avg_content(T)
                    key = "time_averaged_num_of_items_in_fleet"
                else:
                    edge.update_final_conveyor_avg_content(T)
                    key = "time_averaged_num_of_items_in_conveyor"
            except Exception as e:
                mon.suppress = False
                mon.violation("C18", "finalise_crashed", f"{t}:update_final_avg_content-raised:{type(e).__name__}", {"edge": eid, "exc": repr(e)[:200]})
                continue
            finally:
                mon.suppress = False
            store = getattr(edge, "inbuiltstore", None)
            if store is None:
                store = edge.belt
            sh = mon.shadow(store)
            integ = sh.integral + sh.occ * (T - sh.occ_t)
            exp = integ / T if T > 0 else 0.0
            rep = edge.stats.get(key)
            mon.counters["c18_edge_avg_checks"] += 1
            if sh.occ_changes >= 10:
                mon.counters["c18_edges_with_10_changes"] += 1
            if rep is None or abs(rep - exp) > 1e-6 * max(1.0, exp):
                mon.violation("C18", "edge_time_average", f"{t.split('_')[0]}:time-averaged-occupancy!=integral-of-true-occupancy/T",
                              {"edge": eid, "reported": rep, "expected": exp, "T": T, "changes": sh.occ_changes})
                continue
            # finalising again at the same T must give the same average
            try:
                mon.suppress = True
                getattr(edge, {"b": "update_final_buffer_avg_content", "f": "update_final_fleet_avg_content"}.get(t[0], "update_final_conveyor_avg_content"))(T)
            except Exception:
                continue
            finally:
                mon.suppress = False
            rep2 = edge.stats.get(key)
            if rep2 is None or abs(rep2 - exp) > 1e-6 * max(1.0, exp):
                mon.violation("C18", "edge_time_average_refinalised", f"{t.split('_')[0]}:time-averaged-occupancy-changes-when-finalised-again-at-the-same-T",
                              {"edge": eid, "first": rep, "second": rep2, "expected": exp, "T": T})

    def _finish_sinks(self):
        mon = self.mon
        for L in self.ledgers.values():
            if L.type != "sink":
                continue
            lo = hi = 0.0
            n = 0
            for st in self.items.values():
                if st.state == "RECEIVED" and st.where == L.id:
                    t_recv = st.t_state
                    n += 1
                    first = st.t_first_put if st.t_first_put is not None else st.t_created
                    hi += t_recv - st.t_created
                    lo += t_recv - first
                    tc = getattr(st.item, "timestamp_creation", None)
                    if tc is None or tc < st.t_created - tol(st.t_created) or tc > first + tol(first):
                        mon.violation("C18", "creation_timestamp", "item:timestamp_creation-outside-[generation,first-put]",
                                      {"item": st.iid, "stamp": tc, "generated": st.t_created, "first_put": first})
            rep = L.node.stats.get("total_cycle_time")
            mon.counters["c18_sink_checks"] += 1
            mon.counters["c18_received_items"] += n
            eps = 1e-6 * max(1.0, hi)
            if rep is None or rep < lo - eps or rep > hi + eps:
                mon.violation("C18", "cycle_time", "sink:total_cycle_time!=sum(reception-creation)",
                              {"node": L.id, "reported": rep, "lower": lo, "upper": hi, "n": n})

    # ---------------------------------------------------------------- C03 / C10 quiescence
    def _finish_quiescence(self, T):
        mon = self.mon
        # whatever the topology: at the end of a long finite run an unreserved item that sits in an edge while a retrieval
        # request waits on that very edge will never be received (nothing is left to wake the request)
        last_any = max([st.t_state for st in self.items.values()] or [0])
        if T - last_any >= 20:
            for eid, edge in self.m.edges.items():
                store = getattr(edge, "inbuiltstore", None)
                if store is None:
                    store = edge.belt
                sh = mon.shadow(store)
                mon.counters["c03_end_of_finite_run_edges_checked"] += 1
                if sh.pend["get"] and self._avail(edge) > 0 and not sh.dead:
                    mon.violation("C03", "stranded_while_retrieval_waits",
                                  f"{sh.kind}:finite-run-ended-with-an-available-item-in-the-edge-and-a-retrieval-request-still-waiting-there",
                                  {"edge": eid, "available": self._avail(edge), "waiting": len(sh.pend["get"]), "T": T, "last_movement": last_any})
        if any(L.type == "combiner" for L in self.ledgers.values()):
            mon.counters["quiescence_skipped_combiner"] += 1
            return
        if any(e.src_node is e.dest_node for e in self.m.edges.values()):
            mon.counters["quiescence_skipped_cyclic_model"] += 1     # a rework loop may deadlock or circulate for ever by design
            return
        # drainable only if no node can wait forever on one in-edge while another one holds items
        for L in self.ledgers.values():
            if L.type in ("machine", "splitter") and len(L.node.in_edges or []) > 1 and L.node._spec.get("in_sel") != "FIRST_AVAILABLE":
                mon.counters["quiescence_skipped_policy_can_starve_an_edge"] += 1
                return
        # input finished?
        for L in self.ledgers.values():
            if L.type == "source":
                fin = L.node._spec["ia"].get("finite")
                if fin is None or L.created < fin:
                    mon.counters["quiescence_skipped_input_not_finished"] += 1
                    return
        last = max([st.t_state for st in self.items.values()] or [0])
        mon.counters["quiescence_checked"] += 1
        if T - last < 20:
            mon.counters["quiescence_inconclusive_still_moving"] += 1
            return
        left = [st for st in self.items.values() if st.state in ("CREATED", "IN_EDGE", "IN_NODE")]
        if left:
            st = left[0]
            mon.violation("C03", "not_drained", "factory:finite-input-but-an-item-is-neither-received-nor-discarded-at-quiescence",
                          {"item": st.iid, "state": (st.state, st.where), "since": st.t_state, "n_left": len(left), "T": T})
            mon.violation("C10", "stranded_at_quiescence", "factory:item-left-in-an-edge-or-node-at-quiescence",
                          {"item": st.iid, "state": (st.state, st.where), "since": st.t_state, "n_left": len(left)})
        for sh in mon.shadow_list:
            if sh.edge is not None and (sh.grant["put"] or sh.grant["get"]):
                side = "put" if sh.grant["put"] else "get"
                mon.violation("C10", "granted_token_at_quiescence", f"factory:granted-{side}-reservation-outstanding-at-quiescence",
                              {"edge": sh.label})

    def nontrivial(self):
        mon = self.mon
        c = mon.counters
        n_recv = sum(1 for s in self.items.values() if s.state == "RECEIVED")
        n_disc = c["discards"]
        Ls = list(self.ledgers.values())
        blocked = sum(L.blocked_intervals for L in Ls)
        multi = any(L.type == "machine" and L.max_held >= 2 for L in Ls)
        pol = False
        for L in Ls:
            n_out = len(L.node.out_edges or [])
            n_in = len(L.node.in_edges or [])
            if (n_out >= 2 and len(L.pushes) >= 6) or (n_in >= 2 and len(L.pulls) >= 6 and L.type != "combiner"):
                if blocked >= 1 or n_disc >= 1:
                    pol = True
        states3 = any(len(L.states_seen) >= 3 for L in Ls)
        occ10 = c["c18_edges_with_10_changes"] >= 1
        return {
            "C03": (n_disc >= 1 or blocked >= 1) and n_recv >= 20,
            "C01": any(sh.stats["full_with_pending_put"] > 0 for sh in mon.shadow_list),
            "C02": c["c06_nontrivial_choices"] > 0,
            "C04": sum(sh.stats["grants_after_wait"] for sh in mon.shadow_list) >= 5,
            "C06": c["c06_nontrivial_choices"] > 0 and sum(sh.stats["cancel_granted_get"] for sh in mon.shadow_list) > 0,
            "C08": multi and blocked >= 1,
            "C09": n_disc >= 1 or blocked >= 1,
            "C10": blocked >= 1 and n_recv >= 10,
            "C11": c["c11_node_can_put_checked"] >= 5 or c["c11_delay_draws_checked"] >= 10,
            "C12": any(getattr(co, "nontrivial12", False) or (len(co.items) >= 8 and getattr(co, "n_exact", 0) >= 4) for co in self.conv_oracles),
            "C13": any(getattr(co, "nontrivial13", False) for co in self.conv_oracles),
            "C14": any(getattr(fo, "nontrivial", False) for fo in self.fleet_oracles),
            "C15": pol,
            "C16": c["c16_pallets_checked"] >= 3,
            "C17": states3 and not getattr(self, "crashed", True),
            "C18": n_recv >= 20 and occ10,
            "C19": n_recv >= 10,
            "C20": True,
        }

    def sample(self):
        return [list(e) for e in self.events[:40]]
