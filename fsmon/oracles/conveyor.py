"""C12 / C13 - conveyor kinematics from boundary events.

Observer on the ShadowStore of a belt store.  Records puts p_k, first instants in the retrievable
set r_k, gets g_k and the stall intervals (head at the exit and no granted retrieval = narrow
reading; head at the exit until taken = wide reading), and checks

 C12  order, capacity, entry spacing, minimum travel time, exact travel time when nothing ever
      waited at the exit during the journey
 C13  NA1 admission during a stall (non-accumulating), NA2 moved time == T (non-accumulating),
      A1 early (overlap / overtake), A2 late (did not close up / resume) against the ideal
      accumulating reference r_k = max(p_k + T, g_{k-1} + s)
"""
TOL = 1e-6
ADM = 2e-5       # the implementation itself admits within 1e-5 of the spacing boundary


class ConveyorOracle:
    def __init__(self, mon, sh, T, step, cap, acc, slotted=False, ragged=False, mixed=False):
        self.mon = mon
        self.sh = sh
        self.T = T
        self.s = step
        self.cap = cap
        self.acc = bool(acc)
        self.slotted = slotted
        self.ragged = ragged
        self.mixed = mixed        # items of different lengths on one belt: spacing is judged with the previous item's own length
        self.prev_len_steps = 1.0
        self.items = []           # ItemRec in entry order
        self.gets = []            # (t, ItemRec)
        self.last_put_t = None
        self.state = (0, 0)       # (n_ready, n_granted_get)
        self.narrow = []          # [start, end] stall intervals, narrow reading
        self.wide = []
        self._n_open = None
        self._n_open_step = None
        self._w_open = None
        self.puts_in_stall = 0
        self.same_instant_put_get = 0
        self.overlap_seen_at = None
        self.done = False
        self.nontrivial = False
        self.aligned = True       # every put and get so far happened at an integer multiple of the step
        self.cancel_times = []    # instants at which a granted retrieval was cancelled (the belt is not told)
        self._ncanc = 0
        self._na3_reported = False
        sh.observers.append(self)
        if not self.acc and not self.slotted:
            mon.eoi_hooks.append(self.on_eoi)

    def tol(self, t):
        return TOL * max(1.0, abs(t))

    def _is_aligned(self, t):
        k = t / self.s
        return abs(k - round(k)) <= 1e-6 * max(1.0, abs(k))

    def viol(self, prop, check, mech, detail):
        detail = dict(detail)
        detail.update(T=self.T, step=self.s, cap=self.cap, acc=self.acc, slotted=self.slotted)
        self.sh.viol(prop, check, f"{'slotted' if self.slotted else 'belt'}:{'acc' if self.acc else 'nonacc'}:{mech}", detail)

    # ------------------------------------------------------------------ stall tracking
    def on_settle(self, sh):
        now = sh.now()
        if sh.n_granted_get_cancels != self._ncanc:
            self._ncanc = sh.n_granted_get_cancels
            self.cancel_times.append(now)
        r = sh.ready()
        n_ready = len(r) if r is not None else 0
        n_g = len(sh.grant["get"])
        nar = n_ready > 0 and n_g == 0
        wid = n_ready > 0
        if nar and self._n_open is None:
            self._n_open = now
            self.mon.tick += 1
            self._n_open_step = self.mon.tick
        elif not nar and self._n_open is not None:
            if now > self._n_open:
                self.narrow.append((self._n_open, now))
            self._n_open = None
        if wid and self._w_open is None:
            self._w_open = now
        elif not wid and self._w_open is not None:
            if now > self._w_open:
                self.wide.append((self._w_open, now))
            self._w_open = None
        if n_ready >= 2 and self.overlap_seen_at is None and n_ready > self.state[0]:
            # a further item reached the exit while one was already there
            if self.acc or (self._n_open is not None and now > self._n_open + self.tol(now)):
                self.overlap_seen_at = now
        self.state = (n_ready, n_g)

    def on_eoi(self, now):
        """NA3 (hooked): while the head has been waiting unreserved at the exit of a non-accumulating belt for a
        positive time, every item still travelling must be frozen (its move process interrupted)."""
        if self.done or self._n_open is None or now <= self._n_open + 1e-6 or self._na3_reported:
            return
        if any(c >= self._n_open - self.tol(now) for c in self.cancel_times):
            self.mon.counters["c13_na3_skipped_after_cancel"] += 1
            return
        try:
            moving = []
            for entry in self.sh.store.items:
                it = entry[0]
                ir = self.sh.held.get(id(it))
                if ir is not None and getattr(ir, "in_stall", False):
                    continue      # entered during the stall with an earlier reservation (tolerated)
                if it.interruption_start_time is None:
                    moving.append(getattr(it, "id", None))
        except Exception:
            self.mon.counters["c13_na3_skipped_no_hook"] += 1
            return
        self.mon.counters["c13_na3_checked"] += 1
        if moving:
            self._na3_reported = True
            self.viol("C13", "NA3_item_moving_during_stall", "non-accumulating:item-not-frozen-while-the-belt-is-stopped",
                      {"items": moving[:5], "stalled_since": self._n_open, "now": now})

    def on_put(self, sh, ir):
        now = ir.put_t
        mon = self.mon
        mon.counters["c12_puts"] += 1
        if not self._is_aligned(now):
            self.aligned = False
        prev = self.items[-1] if self.items else None
        s_prev = self.s * (self.prev_len_steps if self.mixed else 1.0)
        if self.mixed:
            self.prev_len_steps = getattr(ir.item, "mon_len_steps", 1.0)
        if self.last_put_t is not None:
            gap = now - self.last_put_t
            if gap < s_prev - ADM:
                self.viol("C12", "entry_spacing", "successive-items-entered-less-than-one-item-length-apart",
                          {"gap": gap, "item": ir.iid, "t": now, "granted_puts_outstanding": len(sh.grant["put"])})
        self.last_put_t = now
        # strong spacing (non-accumulating): the previous item must have *moved* one item length, i.e. the time
        # the belt stood still (narrow reading: certainly stopped) does not count
        if prev is not None and not self.acc and prev.ready_t is None:
            stood = self.overlap(self.narrow, prev.put_t, now, self._n_open, now)
            moved = (now - prev.put_t) - stood
            mon.counters["c12_strong_spacing_checked"] += 1
            if moved < s_prev - ADM - self.tol(now):
                canc = any(prev.put_t <= c <= now for c in self.cancel_times)
                if canc:
                    mon.counters["c12_strong_spacing_skipped_after_cancel"] += 1
                else:
                    self.viol("C12", "entry_spacing_travel", "item-admitted-before-the-previous-one-had-travelled-one-item-length",
                              {"item": ir.iid, "prev": prev.iid, "elapsed": now - prev.put_t, "belt_stopped_for": stood, "moved": moved})
        # NA1: the space for this item was *granted* while the head had been waiting unreserved at the exit
        # (a put with a reservation granted before the stall must be honoured - C01 - and is tolerated)
        ir.in_stall = self._n_open is not None and now > self._n_open + self.tol(now)
        if not self.acc:
            g = ir.tok_grant_t if ir.tok_grant_t is not None else now
            during = None
            gs = ir.tok_grant_step
            if self._n_open is not None and g > self._n_open + self.tol(g):
                during = self._n_open
            elif self._n_open is not None and abs(g - self._n_open) <= self.tol(g) and gs is not None and self._n_open_step is not None \
                    and gs > self._n_open_step:
                # same instant, but the head had already landed unclaimed when the space was granted
                during = self._n_open
            else:
                for a, b in self.narrow[-6:]:
                    if a + self.tol(g) < g < b - self.tol(g):
                        during = a
            if during is not None:
                self.puts_in_stall += 1
                nothing_moving = all(x.ready_t is not None for x in self.items if id(x.item) in sh.held)
                self.viol("C13", "NA1_admitted_during_stall", "space-granted-while-head-waits-unreserved-at-the-exit" +
                          (":nothing-else-moving" if nothing_moving else ""),
                          {"item": ir.iid, "t": now, "granted": g, "stalled_since": during})
            elif ir.in_stall:
                self.mon.counters["c13_put_during_stall_with_earlier_reservation_tolerated"] += 1
        if self.gets and abs(self.gets[-1][0] - now) <= self.tol(now):
            self.same_instant_put_get += 1
        self.items.append(ir)

    def on_ready(self, sh, newly):
        pass

    def on_get(self, sh, ir, rec):
        now = sh.now()
        self.mon.counters["c12_gets"] += 1
        if not self._is_aligned(now):
            self.aligned = False
        older = [x for x in sh.held.values() if x.put_seq < ir.put_seq and x.status == "never" and x.ready_t is not None or
                 (x.put_seq < ir.put_seq and x.status == "never" and x.ready_t is None)]
        if older and sh.stats.get("binding_unreadable", 0) and (any(r is not rec for r in sh.grant["get"]) or sh.n_granted_get_cancels):
            # the store does not expose which item a granted retrieval is bound to (attribute renamed / removed): with other
            # granted retrievals outstanding, or after a granted retrieval was cancelled, the older item may be / have been
            # theirs; nothing can be said from the boundary alone
            self.mon.counters["c12_order_undecidable_binding_unreadable"] += 1
        elif older:
            self.viol("C12", "order", "item-left-before-an-item-that-entered-earlier" +
                      (":after-two-items-at-exit" if self.overlap_seen_at is not None else ""),
                      {"got": ir.iid, "older_still_on_belt": older[0].iid, "t": now,
                       "overlap_at_exit_seen": self.overlap_seen_at is not None})
        self.gets.append((now, ir))
        if self.last_put_t is not None and abs(self.last_put_t - now) <= self.tol(now):
            self.same_instant_put_get += 1

    # ------------------------------------------------------------------ helpers
    @staticmethod
    def overlap(intervals, a, b, open_start=None, end=None):
        tot = 0.0
        for s, e in intervals:
            lo, hi = max(s, a), min(e, b)
            if hi > lo:
                tot += hi - lo
        if open_start is not None:
            lo, hi = max(open_start, a), min(end, b)
            if hi > lo:
                tot += hi - lo
        return tot

    # ------------------------------------------------------------------ end of run
    def finish(self, end):
        if self.done:
            return
        self.done = True
        mon = self.mon
        T, s = self.T, self.s
        n_stalls = len(self.narrow) + (1 if self._n_open is not None and end > self._n_open else 0)
        mon.counters["c13_stalls"] += n_stalls
        mon.counters["c12_journeys"] += sum(1 for x in self.items if x.ready_t is not None)
        prev_get = None
        get_t = {id(ir): t for t, ir in self.gets}
        n_exact = 0
        for k, ir in enumerate(self.items):
            p = ir.put_t
            r = ir.ready_t
            if r is None:
                if end > p + T + (end - p) and False:
                    pass
                # never became retrievable: late if the belt was never stalled after p and enough time passed
                w = self.overlap(self.wide, p, end, self._w_open, end)
                if end - p - w > T + 2 * s + 1e-3:
                    self.viol("C13" if w > 0 else "C12", "never_arrived", "item-never-offered-although-belt-travel-time-elapsed",
                              {"item": ir.iid, "put": p, "end": end, "waiting_overlap": w})
                continue
            tol = self.tol(r) + ADM
            # ---- C12 minimum travel
            if r < p + T - tol:
                self.viol("C12", "min_travel", "item-offered-earlier-than-the-full-belt-travel-time" +
                          (":ragged-geometry" if self.ragged else ""),
                          {"item": ir.iid, "put": p, "ready": r, "travel": r - p})
            sn = self.overlap(self.narrow, p, r, self._n_open, end)
            sw = self.overlap(self.wide, p, r, self._w_open, end)
            if sw <= self.tol(r):
                # nothing waited at the exit during this journey: exact travel time
                n_exact += 1
                mon.counters["c12_exact_travel_checked"] += 1
                if abs((r - p) - T) > tol:
                    self.viol("C12", "exact_travel", "undisturbed-journey-took-other-than-belt-length/speed" +
                              (":ragged-geometry" if self.ragged else ""),
                              {"item": ir.iid, "put": p, "ready": r, "travel": r - p, "ragged_geometry": self.ragged})
            elif not self.acc and self.ragged:
                # belt length not a multiple of the item length: the travel time itself is off (KF-ragged-geometry, C12)
                mon.counters["c13_na2_skipped_ragged_geometry"] += 1
            elif not self.acc:
                # ---- NA2: moved time between the two readings of 'stalled'
                mon.counters["c13_na2_checked"] += 1
                lo = (r - p) - sw
                hi = (r - p) - sn
                if T < lo - tol or T > hi + tol:
                    canc = any(p - tol <= c <= r + tol for c in self.cancel_times)
                    if getattr(ir, "in_stall", False):
                        mon.counters["c13_na2_checked_entered_during_stall"] += 1
                    self.viol("C13", "NA2_moved_time", "non-accumulating:moved-time-differs-from-belt-travel-time" +
                              (":advanced-during-stall" if hi < T - tol else ":lost-progress") +
                              (":entered-during-stall" if getattr(ir, "in_stall", False) else "") +
                              (":after-cancel-of-granted-retrieval" if canc else ""),
                              {"item": ir.iid, "put": p, "ready": r, "stall_narrow": sn, "stall_wide": sw,
                               "moved_min": lo, "moved_max": hi, "admitted_during_stall": self.puts_in_stall > 0})
            else:
                # ---- accumulating reference
                mon.counters["c13_acc_checked"] += 1
                ideal = p + T
                if k > 0:
                    g_prev = get_t.get(id(self.items[k - 1]))
                    if g_prev is not None:
                        ideal = max(ideal, g_prev + s)
                    else:
                        ideal = None       # predecessor never left: r_k is not defined by the reference
                if ideal is not None:
                    if r < ideal - tol:
                        self.viol("C13", "A1_early", "accumulating:follower-reached-the-exit-before-the-item-ahead-had-left-and-cleared",
                                  {"item": ir.iid, "put": p, "ready": r, "ideal": ideal, "early_by_steps": (ideal - r) / s,
                                   "two_items_at_exit_seen": self.overlap_seen_at is not None})
                    elif r > ideal + tol:
                        late = (r - ideal) / s
                        self.viol("C13", "A2_late", "accumulating:follower-late" + (":less-than-2-steps" if late < 2 else ":2-steps-or-more") +
                                  (":after-overlap" if self.overlap_seen_at is not None and self.overlap_seen_at <= r else ""),
                                  {"item": ir.iid, "put": p, "ready": r, "ideal": ideal, "late_by_steps": late})
        if self.overlap_seen_at is not None and self.acc:
            self.viol("C13", "A1_two_at_exit", "accumulating:two-items-at-the-exit-at-once", {"t": self.overlap_seen_at})
        elif self.overlap_seen_at is not None:
            canc = any(c <= self.overlap_seen_at + self.tol(self.overlap_seen_at) for c in self.cancel_times)
            self.viol("C13", "NA_two_at_exit", "non-accumulating:two-items-at-the-exit-at-once" +
                      (":after-cancel-of-granted-retrieval" if canc else ""), {"t": self.overlap_seen_at})
        n_items = len(self.items)
        multi = any(sum(1 for x in self.items if x.put_t <= a and (x.ready_t is None or get_t.get(id(x), 1e18) > a)) >= 2
                    for a, b in self.narrow[:50])
        self.nontrivial12 = n_items >= 8 and self.same_instant_put_get >= 1
        self.nontrivial13 = n_stalls >= 2 and multi
        self.n_exact = n_exact
