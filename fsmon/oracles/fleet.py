"""C14 - fleet batches.  Observer attached to the ShadowStore of a FleetStore.

Only boundary observations are used: put instants (loading order), the instant at which an item
first appears in the retrievable set (a), hence its departure d = a - 2*transit.  The timer phase
is not fixed; every check below holds for a correct fleet under both readings of the timer
(free-running re-armed at each wake-up / started by the first waiting item)."""

TOL = 1e-6


class FleetOracle:
    def __init__(self, mon, sh, cap, delay, transit):
        self.mon = mon
        self.sh = sh
        self.c = cap
        self.D = delay
        self.tau2 = 2 * transit
        self.items = []          # ItemRec in loading order
        self.cap_instants = []   # put instants at which held == capacity
        self.batches = []        # (a, [ItemRec])
        self.loads_during_trip = 0
        self.loads_at_departure = 0
        self.done = False
        sh.observers.append(self)

    def tol(self, t):
        return TOL * max(1.0, abs(t))

    def on_put(self, sh, ir):
        self.items.append(ir)
        now = ir.put_t
        if len(sh.held) >= self.c:
            self.cap_instants.append((now, ir.put_seq))
        # load while some earlier item is in transit (departed, not yet arrived)
        for a, b in self.batches[-3:]:
            pass

    def on_ready(self, sh, newly):
        now = newly[0].ready_t
        if self.batches and abs(self.batches[-1][0] - now) <= self.tol(now):
            self.batches[-1][1].extend(newly)
        else:
            self.batches.append((now, list(newly)))

    def on_get(self, sh, ir, rec):
        pass

    # ------------------------------------------------------------------
    def finish(self, end):
        """evaluate F1-F3, F5 on the complete history (called once at the end of the run)."""
        if self.done:
            return
        self.done = True
        mon, v = self.mon, self.sh.viol
        D, T2 = self.D, self.tau2
        deps = sorted({a - T2 for a, _ in self.batches})
        ncap = ntimer = 0
        # F1
        for ir in self.items:
            t = ir.put_t
            tol = self.tol(t + D + T2)
            if ir.ready_t is not None:
                if ir.ready_t > t + D + T2 + tol:
                    v("C14", "F1_late", "fleet:item-available-later-than-delay+round-trip",
                      {"item": ir.iid, "put": t, "ready": ir.ready_t, "bound": t + D + T2, "D": D, "2tau": T2, "cap": self.c})
                if ir.ready_t < t + T2 - tol:
                    v("C14", "F1_early", "fleet:item-available-earlier-than-one-round-trip-after-loading",
                      {"item": ir.iid, "put": t, "ready": ir.ready_t, "2tau": T2})
            elif end > t + D + T2 + tol + 1e-6:
                v("C14", "F1_late", "fleet:item-never-available-after-delay+round-trip",
                  {"item": ir.iid, "put": t, "end": end, "bound": t + D + T2})
        # F2: no observed departure between loading and own departure
        for ir in self.items:
            if ir.ready_t is None:
                own = None
            else:
                own = ir.ready_t - T2
            for d in deps:
                tol = self.tol(d)
                if d > ir.put_t + tol and (own is None or d < own - tol):
                    v("C14", "F2_missed_trip", "fleet:waiting-item-left-behind-by-a-departure",
                      {"item": ir.iid, "put": ir.put_t, "missed_departure": d, "own_departure": own, "cap": self.c,
                       "D": D, "2tau": T2})
                    break
            mon.counters["c14_items_checked"] += 1
        # F3: capacity instants
        for tc, seqc in self.cap_instants:
            tol = self.tol(tc + T2)
            ok_any = False
            for ir in self.items:
                # items loaded up to and including the load that reached capacity (a load later in the
                # same instant comes after the departure and may wait for the next trip)
                if ir.put_seq <= seqc and (ir.ready_t is None or ir.ready_t >= tc + T2 - tol):
                    # waiting (or just loaded) at tc
                    if ir.ready_t is None:
                        if end > tc + T2 + tol + 1e-6:
                            v("C14", "F3_capacity_departure", "fleet:capacity-reached-but-waiting-item-did-not-arrive-one-round-trip-later",
                              {"item": ir.iid, "put": ir.put_t, "capacity_instant": tc, "ready": None, "cap": self.c})
                    elif ir.ready_t > tc + T2 + tol:
                        v("C14", "F3_capacity_departure", "fleet:capacity-reached-but-waiting-item-did-not-arrive-one-round-trip-later",
                          {"item": ir.iid, "put": ir.put_t, "capacity_instant": tc, "ready": ir.ready_t, "expected": tc + T2,
                           "cap": self.c})
                    else:
                        ok_any = True
            if ok_any:
                ncap += 1
        # F5: a timer departure is at least D after the previous departure
        prev = None
        for d in deps:
            is_cap = any(abs(d - tc) <= self.tol(d) for tc, _ in self.cap_instants)
            if not is_cap:
                ntimer += 1
                if prev is not None and d < prev + D - self.tol(d):
                    v("C14", "F5_timer_phase", "fleet:timer-departure-less-than-one-delay-after-previous-departure",
                      {"departure": d, "previous": prev, "D": D})
                # a timer departure needs an item that waited: some item loaded <= d
            prev = d
        # loads during a trip / in the departure instant (coverage counters)
        for ir in self.items:
            for d in deps:
                if abs(ir.put_t - d) <= self.tol(d):
                    self.loads_at_departure += 1
                    break
            for d in deps:
                if d + self.tol(d) < ir.put_t < d + T2 - self.tol(d):
                    self.loads_during_trip += 1
                    break
        mon.counters["c14_batches"] += len(self.batches)
        mon.counters["c14_capacity_departures"] += ncap
        mon.counters["c14_timer_departures"] += ntimer
        mon.counters["c14_loads_during_trip"] += self.loads_during_trip
        mon.counters["c14_loads_at_departure"] += self.loads_at_departure
        self.nontrivial = len(self.batches) >= 3 and ncap >= 1 and ntimer >= 1 and self.loads_during_trip >= 1
