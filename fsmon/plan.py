"""Which engines serve which property, with the case volumes of both tiers, the
non-triviality rule reported in the evidence and the floors below which a run is
INCONCLUSIVE (the deciding monitor saw too little)."""

STORE_KINDS = ["rprs", "rrs", "filter", "filter_td", "buffer_fifo", "buffer_lifo", "fleet",
               "bufferstore_fifo", "bufferstore_lifo"]


def e1(n, **kw):
    p = {"kinds": STORE_KINDS}
    p.update(kw)
    return {"engine": "E1", "params": p, "cases": n}


def e2(depth, nshards, **kw):
    from .workloads.e2 import UNITS
    p = {"depth": depth, "nshards": nshards}
    p.update(kw)
    return {"engine": "E2", "params": p, "cases": len(UNITS) * nshards, "shards": min(64, len(UNITS) * nshards)}


def e5(n):
    return {"engine": "E5", "params": {}, "cases": n}


PLAN = {
    "C01": {"quick": [e2(6, 2), e1(2400, profiles=["full_store", "mixed", "burst", "prio_storm"])],
            "thorough": [e2(8, 8), e1(48000, profiles=["full_store", "mixed", "burst", "prio_storm"])]},
    "C02": {"quick": [e2(6, 2), e1(2400, profiles=["hoarder", "mixed", "burst"])],
            "thorough": [e2(8, 8), e1(48000, profiles=["hoarder", "mixed", "burst"])]},
    "C04": {"quick": [e2(6, 2), e1(2400)], "thorough": [e2(8, 8), e1(48000)]},
    "C05": {"quick": [e2(6, 2), e1(2400, profiles=["prio_storm", "full_store", "hoarder"]), {"engine": "E1p", "params": {}, "cases": 1600}],
            "thorough": [e2(8, 8), e1(40000, profiles=["prio_storm", "full_store", "hoarder"]), {"engine": "E1p", "params": {}, "cases": 30000}]},
    "C06": {"quick": [e2(6, 2), e1(2400, profiles=["hoarder", "mixed"])],
            "thorough": [e2(8, 8), e1(48000, profiles=["hoarder", "mixed"])]},
    "C07": {"quick": [e2(5, 2, illformed=True), e1(1600, illformed=0.08)],
            "thorough": [e2(7, 8, illformed=True), e1(30000, illformed=0.08)]},
    "C14": {"quick": [e5(1600), e1(800, kinds=["fleet"])], "thorough": [e5(24000), e1(8000, kinds=["fleet"])]},
}

RULES = {
    "C01": "E1: random client histories (2-5 clients, capacity 1-4, 15-60 ops each) on every reservable store kind; "
           "non-trivial = the store was full with a space request pending at least once; distinct = distinct sha256 of the executed operation log",
    "C02": "E1 hoarder/mixed/burst histories; non-trivial = a granted retrieval was cancelled and >=2 gets followed, or a "
           "retrieval was bound while >=2 unreserved items were available; distinct by operation-log hash",
    "C04": "E1 histories; non-trivial = requests that had to wait were granted through >=2 different wake-up paths "
           "(put, get, cancel of put, cancel of get, timer); distinct by operation-log hash",
    "C05": "E1 priority-storm histories; non-trivial = >=2 grants happened after waiting (so an order among waiting requests was decided); distinct by operation-log hash",
    "C06": "E1 hoarder histories; non-trivial = >=1 cancel of a granted retrieval and >=1 binding decided among >=2 candidate items; distinct by operation-log hash",
    "C14": "E5: scripted loading/consumption on one Fleet (capacity 1-5, delay .5-3, transit 0-1.5, gaps aligned with trip boundaries) + E1 fleet histories; "
           "non-trivial = >=3 batches, >=1 capacity departure, >=1 timer departure and >=1 load while a trip was under way; distinct by operation-log hash",
    "C07": "E1 histories with 8% ill-formed calls of 10 classes; non-trivial = an ill-formed call was issued while the store held >=1 item and >=1 other reservation was outstanding; distinct by operation-log hash",
}

FLOORS = {
    "C01": {"quick": {"cases": 1000, "distinct_nontrivial": 300, "full_with_pending_put": 1000}},
    "C02": {"quick": {"cases": 1000, "distinct_nontrivial": 200, "gets": 3000}},
    "C04": {"quick": {"cases": 1000, "distinct_nontrivial": 300, "grants_after_wait": 3000}},
    "C05": {"quick": {"cases": 1000, "distinct_nontrivial": 300, "c05_grants_checked": 10000}},
    "C06": {"quick": {"cases": 1000, "distinct_nontrivial": 100, "c06_bindings_checked": 5000}},
    "C14": {"quick": {"cases": 1000, "distinct_nontrivial": 200, "c14_batches": 5000, "c14_capacity_departures": 1000,
                      "c14_timer_departures": 1000}},
    "C07": {"quick": {"cases": 800, "distinct_nontrivial": 200, "c07_illformed_calls": 2000}},
}
for _p, _d in FLOORS.items():
    if "thorough" not in _d:
        _d["thorough"] = dict(_d["quick"])
