"""Which engines serve which property, with the case volumes of both tiers, the
non-triviality rule reported in the evidence and the floors below which a run is
INCONCLUSIVE (the deciding monitor saw too little)."""

STORE_KINDS = ["rprs", "rrs", "filter", "filter_td", "buffer_fifo", "buffer_lifo", "fleet",
               "bufferstore_fifo", "bufferstore_lifo"]


BUF_KINDS = ["buffer_fifo", "buffer_lifo", "fleet"]
ALL_KINDS = STORE_KINDS + ["slotbelt", "belt_acc", "belt_nacc"]


def e1(n, **kw):
    p = {"kinds": kw.pop("kinds", None) or STORE_KINDS}
    p.update(kw)
    return {"engine": "E1", "params": p, "cases": n}


E2_UNITS = []
for _kind, _caps in (("rprs", (1, 2)), ("rrs", (1, 2)), ("filter", (1, 2)), ("bufferstore_fifo", (1, 2)),
                     ("bufferstore_lifo", (2,)), ("fleet", (1, 2))):
    for _cap in _caps:
        for _np in (1, 2):
            E2_UNITS.append((_kind, _cap, _np))


def e2(depth, nshards, **kw):
    UNITS = E2_UNITS
    p = {"depth": depth, "nshards": nshards}
    p.update(kw)
    return {"engine": "E2", "params": p, "cases": len(UNITS) * nshards, "shards": min(64, len(UNITS) * nshards)}


def e5(n):
    return {"engine": "E5", "params": {}, "cases": n}


def e3(n, **kw):
    p = {"profile": "core"}
    p.update(kw)
    return {"engine": "E3", "params": p, "cases": n}



PLAN = {
    "C01": {"quick": [e2(7, 4), e1(14000, kinds=ALL_KINDS, profiles=["full_store", "mixed", "burst", "prio_storm"]),
                      e1(4000, kinds=ALL_KINDS, profiles=["full_store", "mixed"], illformed=0.04)],
            "thorough": [e2(9, 16), e1(240000, kinds=ALL_KINDS, profiles=["full_store", "mixed", "burst", "prio_storm"]), e3(20000)]},
    "C02": {"quick": [e2(7, 4), e1(14000, kinds=ALL_KINDS, profiles=["hoarder", "mixed", "burst", "cancel_storm"]),
                      e1(4000, kinds=ALL_KINDS, profiles=["hoarder", "mixed"], illformed=0.04),
                      # payload objects with a user-defined __eq__ (distinct objects that compare equal): known finding KF-value-equal-items
                      e1(1200, kinds=ALL_KINDS, profiles=["hoarder", "mixed"], payload="equal_values")],
            "thorough": [e2(9, 16), e1(240000, kinds=ALL_KINDS, profiles=["hoarder", "mixed", "burst", "cancel_storm"]), e3(20000),
                         e1(12000, kinds=ALL_KINDS, profiles=["hoarder", "mixed"], payload="equal_values")]},
    "C04": {"quick": [e2(7, 4), e1(16000), e3(2000)], "thorough": [e2(9, 16), e1(240000), e3(20000)]},
    "C05": {"quick": [e2(7, 4), e1(16000, profiles=["prio_storm", "full_store", "hoarder"]), {"engine": "E1p", "params": {}, "cases": 12000},
                      {"engine": "E2p", "params": {}, "cases": 8736}],
            "thorough": [e2(9, 16), e1(200000, profiles=["prio_storm", "full_store", "hoarder"]), {"engine": "E1p", "params": {}, "cases": 160000},
                         {"engine": "E2p", "params": {}, "cases": 8736}]},
    "C06": {"quick": [e2(7, 4), e1(12000, kinds=ALL_KINDS, profiles=["hoarder", "mixed"]),
                      e1(8000, kinds=["buffer_fifo", "buffer_lifo", "bufferstore_fifo", "bufferstore_lifo", "fleet", "filter", "rprs", "belt_acc", "slotbelt"], profiles=["cancel_storm"]), e5(4000), e3(2000, templates=["fanin", "multisink", "diamond", "line"]),
                      # several distinct objects carrying the same id (ids are the caller's business)
                      e1(3000, kinds=["rprs", "rrs", "filter", "buffer_fifo", "buffer_lifo", "bufferstore_fifo", "fleet"], profiles=["hoarder", "cancel_storm"], payload="same_ids")],
            "thorough": [e2(9, 16), e1(240000, kinds=ALL_KINDS, profiles=["hoarder", "mixed", "cancel_storm"]), e5(40000), e3(20000),
                         e1(30000, kinds=["rprs", "rrs", "filter", "buffer_fifo", "buffer_lifo", "bufferstore_fifo", "fleet"], profiles=["hoarder", "cancel_storm"], payload="same_ids")]},
    "C07": {"quick": [e2(6, 4, illformed=True), e1(12000, kinds=ALL_KINDS, illformed=0.08)],
            "thorough": [e2(8, 16, illformed=True), e1(160000, kinds=ALL_KINDS, illformed=0.08)]},
    "C03": {"quick": [e3(8000)], "thorough": [e3(80000)]},
    "C08": {"quick": [e3(8000)], "thorough": [e3(80000)]},
    "C09": {"quick": [e3(8000)], "thorough": [e3(80000)]},
    "C10": {"quick": [e3(8000), e3(800, templates=["syncfan"])], "thorough": [e3(80000), e3(8000, templates=["syncfan"])]},
    "C11": {"quick": [e1(16000, kinds=BUF_KINDS, probe=0.12), e3(800)],
            "thorough": [e1(200000, kinds=BUF_KINDS, probe=0.12), e3(8000)]},
    # syncfan: saturated chooser, one-place out-buffers, commensurate consumers (several out-edges free up in one instant)
    "C15": {"quick": [e3(8000), e3(1600, templates=["syncfan"])], "thorough": [e3(80000), e3(16000, templates=["syncfan"])]},
    "C16": {"quick": [e3(8000, templates=["pack", "packunpack", "packpack", "loop"])], "thorough": [e3(80000, templates=["pack", "packunpack", "packpack", "loop"])]},
    "C17": {"quick": [e3(8000)], "thorough": [e3(80000)]},
    "C18": {"quick": [e3(8000), e1(8000)], "thorough": [e3(80000), e1(80000)]},
    "C19": {"quick": [{"engine": "E7", "params": {"min_T": 120}, "cases": 160, "timeout": 1200},
                      # in-process only (run twice + unmonitored), the run ends wherever the spec's own T falls: state left
                      # behind by a run that stops in the middle of an operation must not leak into the next run
                      {"engine": "E7", "params": {"children": 0, "templates": ["packunpack", "splitline", "pack", "diamond", "fanin", "line"]}, "cases": 1200, "timeout": 1200},
                      # store level: the same E1 client history (forgetful clients: freed tokens and items, addresses re-used) twice in one
                      # interpreter and in a fresh one; the operation logs must be identical
                      {"engine": "E7", "params": {"stores": 1}, "cases": 1200, "timeout": 1200},
                      {"engine": "E7", "params": {"stores": 1, "kinds": ["rprs", "rrs", "filter", "filter_td"], "profiles": ["hoarder", "cancel_storm"]}, "cases": 1600, "timeout": 1200}],
            "thorough": [{"engine": "E7", "params": {"min_T": 120}, "cases": 3200, "timeout": 6000},
                         {"engine": "E7", "params": {"children": 0, "templates": ["packunpack", "splitline", "pack", "diamond", "fanin", "line"]}, "cases": 32000, "timeout": 6000},
                         {"engine": "E7", "params": {"stores": 1}, "cases": 24000, "timeout": 6000},
                         {"engine": "E7", "params": {"stores": 1, "kinds": ["rprs", "rrs", "filter", "filter_td"], "profiles": ["hoarder", "cancel_storm"]}, "cases": 32000, "timeout": 6000}]},
    "C12": {"quick": [{"engine": "E4", "params": {}, "cases": 12000}, {"engine": "E4", "params": {"aligned": 1, "kind": "cont_nacc"}, "cases": 6000}, {"engine": "E4", "params": {"mixed": 1, "kind": "cont_nacc"}, "cases": 3000}, {"engine": "E4", "params": {"ragged": 1, "kind": "cont_nacc"}, "cases": 320}, e3(4000, templates=["line", "fanin", "diamond"]), e1(6000, kinds=["belt_nacc", "belt_acc", "slotbelt"], profiles=["slow_consumer", "mixed", "full_store", "burst", "hoarder"])],
            "thorough": [{"engine": "E4", "params": {}, "cases": 240000}, {"engine": "E4", "params": {"aligned": 1, "kind": "cont_nacc"}, "cases": 60000}, {"engine": "E4", "params": {"mixed": 1, "kind": "cont_nacc"}, "cases": 30000}, {"engine": "E4", "params": {"ragged": 1}, "cases": 3200}, e3(40000), e1(60000, kinds=["belt_nacc", "belt_acc", "slotbelt"], profiles=["slow_consumer", "mixed", "full_store", "burst", "hoarder"])]},
    "C13": {"quick": [{"engine": "E4", "params": {}, "cases": 12000}, {"engine": "E4", "params": {"aligned": 1, "kind": "cont_nacc"}, "cases": 6000}, {"engine": "E4", "params": {"mixed": 1, "kind": "cont_nacc"}, "cases": 3000}, e3(4000, templates=["line", "fanin", "diamond"]), e1(6000, kinds=["belt_nacc", "belt_acc", "slotbelt"], profiles=["slow_consumer", "mixed", "full_store", "burst", "hoarder"])],
            "thorough": [{"engine": "E4", "params": {}, "cases": 240000}, {"engine": "E4", "params": {"aligned": 1, "kind": "cont_nacc"}, "cases": 60000}, {"engine": "E4", "params": {"mixed": 1, "kind": "cont_nacc"}, "cases": 30000}, e3(40000), e1(60000, kinds=["belt_nacc", "belt_acc", "slotbelt"], profiles=["slow_consumer", "mixed", "full_store", "burst", "hoarder"])]},
    "C20": {"quick": [{"engine": "E8", "params": {"table": "matrix"}, "cases": 2592}, {"engine": "E8", "params": {"table": "invalid"}, "cases": 38},
                      e3(8000), e1(8000, kinds=ALL_KINDS)],
            "thorough": [{"engine": "E8", "params": {"table": "matrix"}, "cases": 7776}, {"engine": "E8", "params": {"table": "invalid"}, "cases": 38},
                         e3(80000), e1(80000, kinds=ALL_KINDS)]},
    "C14": {"quick": [e5(12000), e1(6000, kinds=["fleet"], profiles=["hoarder", "cancel_storm", "mixed", "slow_consumer"])],
            "thorough": [e5(200000), e1(80000, kinds=["fleet"], profiles=["hoarder", "cancel_storm", "mixed", "slow_consumer"])]},
}

RULES = {
    "C01": "E1: random client histories (2-5 clients, capacity 1-4, 15-60 ops each) on every reservable store kind; "
           "non-trivial = the store was full with a space request pending at least once; distinct = distinct sha256 of the executed operation log",
    "C02": "E1 hoarder/mixed/burst histories; non-trivial = a granted retrieval was cancelled and >=2 gets followed, or a "
           "retrieval was bound while >=2 unreserved items were available; distinct by operation-log hash",
    "C04": "E1 histories; non-trivial = requests that had to wait were granted through >=2 different wake-up paths "
           "(put, get, cancel of put, cancel of get, timer); distinct by operation-log hash",
    "C05": "E1 histories include forgetful clients (tokens freed after use / cancel, addresses re-used) and a script-level caller (active_process None); E2p: exhaustive sweep of all priority sequences of length <=4 over {-1,0,1} x one optional cancellation x put/get side x same-instant/staggered arrivals on 4 store kinds (8736 cases, complete); E1 priority-storm histories; non-trivial = >=2 grants happened after waiting (so an order among waiting requests was decided); distinct by operation-log hash",
    "C06": "E1 hoarder histories; non-trivial = >=1 cancel of a granted retrieval and >=1 binding decided among >=2 candidate items; distinct by operation-log hash",
    "C03": "E3: random factories (templates line/fanin/diamond/multisink/pack/packunpack, every edge type, shuffled construction and connection order, "
           "variants plain/congested/starved/finite); non-trivial = >=1 discard or >=1 blocked push, and >=20 items received; distinct = sha256 of the model spec",
    "C08": "E3 random factories; non-trivial = a machine held >=2 units at once and >=1 unit left later than its first offer (blocked); distinct by spec hash",
    "C09": "E3 random factories; non-trivial = >=1 discard (non-blocking) or >=1 blocked push (blocking) observed; distinct by spec hash",
    "C10": "E3 random factories; non-trivial = >=1 blocked push and >=10 items received (so pulls and pushes were decided under congestion); distinct by spec hash",
    "C11": "E1 histories on Buffer/Fleet with 12% can_put/can_get probes (probe = query, then a reservation issued in the same state) + E3 factories (every can_put of a non-blocking node, every buffer delay draw); "
           "non-trivial = probe issued while >=1 granted-unused reservation existed on the probed side (E1) / >=5 node can_put calls or >=10 delay draws checked (E3)",
    "C15": "E3 random factories (15% with edge lists given to the node constructors and connect calls in another order; indices judged against the declared order) + a block of 'syncfan' models (saturated chooser, one-place out-buffers, commensurate consumers: several out-edges free up in one instant); non-trivial = a node with >=2 edges on the policy's side handled >=6 units while >=1 push was blocked or >=1 item dropped; distinct by spec hash",
    "C16": "E3 pack / pack-unpack / pack-pack factories (recipes [1,1] [1,2] [1,3,1] [1,1,2], zeros in recipes) and closed loops (a finite population of pallets and items packed, unpacked and fed back, lap after lap); non-trivial = >=3 pallets checked at the combiner's out-edge; distinct by spec hash",
    "C17": "E3 random factories finalised at T (round, non-round, inside set-up, before the first item); non-trivial = a node spent time in >=3 distinct states; distinct by spec hash",
    "C18": "E3 random factories + E1 store histories; non-trivial = >=20 items received and an edge whose occupancy changed >=10 times (E3) / >=6 occupancy changes (E1)",
    "C19": "E7 store block: E1 client histories (forgetful clients, so tokens and items are freed and their addresses re-used) run twice in one interpreter and, every 4th, in a fresh interpreter with another hash seed / heap pre-fill; operation logs compared exactly. E7: E3 model specs (>=120 time units) each run twice in one interpreter, once unmonitored, and in 2 fresh interpreters with PYTHONHASHSEED 1 / 4242 and different heap pre-fill; "
           "logs (time, edge, op, item) and final statistics compared exactly; clock monotonicity checked at every kernel step; non-trivial = spec uses RANDOM policies / random delays or a conveyor and logged >=200 item movements",
    "C12": "E4: scripted producer/consumer on one conveyor (continuous/slotted x accumulating/not; integer belt lengths that are multiples of the item length, plus a 'ragged' geometry class; regular/bursty/irregular/saturating arrivals; eager/stalling consumers; a class with items of mixed lengths on one belt) + conveyor edges of E3 factories + hostile multi-client E1 histories on belt stores (tokens held across time, cancels); "
           "non-trivial = >=8 items and (a put and a get in one instant, or >=4 undisturbed journeys checked for exact travel time); distinct by operation-log / spec hash",
    "C13": "E4 stalling-consumer scripts (incl. mixed item lengths with repeated short stalls while a long item is entering) + conveyor edges of E3 factories + hostile multi-client E1 histories on belt stores (puts with a reservation granted before the stall); non-trivial = >=2 stalls with >=2 items on the belt during one of them; distinct by operation-log / spec hash",
    "C20": "E8: the complete single-stage matrix node type x edge-in x edge-out x blocking x policy x source blocking x zero delays (2592 models; x3 construction orders in thorough) and the table of 38 invalid configurations (both exhaustive), "
           "+ E3 random factories (every documented combination) + E1 histories on all store kinds incl. belts; non-trivial = every model counts (the property is about each of them); distinct by model index / spec hash",
    "C14": "E5: scripted loading/consumption on one Fleet (capacity 1-5, delay .5-3, transit 0-1.5, gaps aligned with trip boundaries) + E1 fleet histories; "
           "non-trivial = >=3 batches, >=1 capacity departure, >=1 timer departure and >=1 load while a trip was under way; distinct by operation-log hash",
    "C07": "E1 histories with 8% ill-formed calls of 10 classes; non-trivial = an ill-formed call was issued while the store held >=1 item and >=1 other reservation was outstanding; distinct by operation-log hash",
}

FLOORS = {
    "C01": {"quick": {"cases": 32204, "distinct_nontrivial": 14253, "full_with_pending_put": 244171}},
    "C02": {"quick": {"cases": 32204, "distinct_nontrivial": 1652, "gets": 13015}},
    "C03": {"quick": {"cases": 960, "distinct_nontrivial": 193, "c03_inside_checks": 204096, "factory_puts": 58589}},
    "C04": {"quick": {"cases": 32204, "distinct_nontrivial": 2950, "grants_after_wait": 40353}},
    "C05": {"quick": {"cases": 33644, "distinct_nontrivial": 4673, "c05_grants_checked": 155073, "e1_token_addresses_reused": 20000, "e1_script_level_ops": 20000}},
    "C06": {"quick": {"cases": 32204, "distinct_nontrivial": 422, "c06_bindings_checked": 31593}},
    "C07": {"quick": {"cases": 7918, "distinct_nontrivial": 3242, "c07_illformed_calls": 61103}},
    "C08": {"quick": {"cases": 960, "distinct_nontrivial": 143, "c08_offers_checked": 29551}},
    "C09": {"quick": {"cases": 960, "distinct_nontrivial": 594, "discards": 20725}},
    "C10": {"quick": {"cases": 960, "distinct_nontrivial": 154, "c10_in_checks": 423172, "c10_out_checks": 17334}},
    "C11": {"quick": {"cases": 2016, "distinct_nontrivial": 1944, "c11_node_can_put_checked": 2603, "c11_delay_draws_checked": 2713}},
    "C12": {"quick": {"cases": 2438, "distinct_nontrivial": 2163, "c12_journeys": 58425, "c12_exact_travel_checked": 44298}},
    "C13": {"quick": {"cases": 2400, "distinct_nontrivial": 1094, "c13_stalls": 12595, "c13_na2_checked": 5751}},
    "C14": {"quick": {"cases": 2160, "distinct_nontrivial": 900, "c14_batches": 23897, "c14_capacity_departures": 19377, "c14_timer_departures": 6167}},
    "C15": {"quick": {"cases": 960, "distinct_nontrivial": 428, "c15_nodes_out_checked": 3302, "c15_fa_out_checks": 12092}},
    "C16": {"quick": {"cases": 960, "distinct_nontrivial": 786, "c16_pallets_checked": 9499, "unpacks": 9781, "c16_splitter_pallets_checked": 3949}},
    "C17": {"quick": {"cases": 960, "distinct_nontrivial": 744, "c17_nodes_checked": 4628, "c17_integrations": 3532}},
    "C18": {"quick": {"cases": 1920, "distinct_nontrivial": 1034, "c18_edge_avg_checks": 4405, "c18_received_items": 17513, "c18_intermediate_finalisations": 400}},
    "C19": {"quick": {"cases": 19, "distinct_nontrivial": 8, "c19_runs_compared": 96, "c19_child_interpreters": 38, "c19_store_histories_compared": 2000, "c19_store_addresses_reused": 10000}},
    "C20": {"quick": {"cases": 2234, "distinct_nontrivial": 1274, "c20_matrix_models": 2592, "c20_invalid_configs": 38}},
}
for _p, _d in FLOORS.items():
    if "thorough" not in _d:
        _d["thorough"] = dict(_d["quick"])
