#!/usr/bin/env python3
"""usage: tools/seed_eval.py [--tier quick] [--props C01,C02] <seed-or-mutant dir>...
For each directory containing patch.diff: copy /repo to a scratch dir (mktemp, removed afterwards), apply the
patch there, run ./check <property> <tier> with VERIF_REPO pointing at the copy (evidence redirected to the
scratch dir) and report whether the check fired.  The property list comes from meta.json ("property" / "also") or --props."""
import json, os, shutil, subprocess, sys, tempfile, time
HERE = os.path.dirname(os.path.dirname(os.path.abspath(__file__)))
def main():
    args = sys.argv[1:]
    tier = "quick"; props = None
    while args and args[0].startswith("--"):
        if args[0] == "--tier": tier = args[1]; args = args[2:]
        elif args[0] == "--props": props = args[1].split(","); args = args[2:]
        else: raise SystemExit("bad arg " + args[0])
    rows = []
    for d in args:
        d = os.path.abspath(d)
        meta = {}
        if os.path.exists(os.path.join(d, "meta.json")):
            meta = json.load(open(os.path.join(d, "meta.json")))
        plist = props or ([meta.get("property")] + meta.get("also", []) if meta.get("property") else [])
        tmp = tempfile.mkdtemp(prefix="seedeval.")
        try:
            shutil.copytree("/repo/src", os.path.join(tmp, "src"))
            shutil.copytree("/repo/.git", os.path.join(tmp, ".git")) if False else None
            r = subprocess.run(["patch", "-p1", "-s", "-d", tmp, "-i", os.path.join(d, "patch.diff")], capture_output=True, text=True)
            if r.returncode != 0:
                rows.append((os.path.basename(d), "-", "PATCH-FAILED", r.stdout[-200:])); continue
            for p in plist:
                env = dict(os.environ, VERIF_REPO=tmp, VERIF_EVIDENCE_DIR=os.path.join(tmp, "ev"))
                t0 = time.time()
                c = subprocess.run([os.path.join(HERE, "check"), p, tier], capture_output=True, text=True, env=env, cwd=HERE)
                last = c.stdout.strip().splitlines()[-1] if c.stdout.strip() else c.stderr[-200:]
                keys = ""
                try:
                    ev = json.load(open(os.path.join(tmp, "ev", f"{p}.json")))
                    keys = "; ".join(f"{k} x{v}" for k, v in list(ev["coverage"]["unlisted_violation_keys"].items())[:4])
                except Exception:
                    pass
                rows.append((os.path.basename(d), p, {0: "missed", 1: "CAUGHT", 2: "inconclusive"}.get(c.returncode, str(c.returncode)),
                             f"{time.time()-t0:.0f}s {keys or last[:150]}"))
        finally:
            shutil.rmtree(tmp, ignore_errors=True)
    for r in rows:
        print(" | ".join(r))
if __name__ == "__main__":
    main()
