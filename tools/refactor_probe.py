#!/venv/bin/python
"""Do the monitors stay silent on behaviour-preserving refactorings?  (self-validation aid, not a registered check)

usage: tools/refactor_probe.py [scale] [--patch file.diff] [--no-rewrite] [--attrs a=b,...] [--direct-events]
  (--patch applies a hand-written refactoring first; with --no-rewrite only that patch is judged)

Builds a scratch copy of /repo/src (outside /repo and /verif, removed afterwards) and rewrites it with transformations that
cannot change behaviour:
  T1  every function-local variable (assigned in the function, not a parameter / global / nonlocal) gets a new name;
  T2  every private method of the package (`_name`, not dunder) gets a new name, at its definition and at every `x._name` use;
  T4  (--attrs old=new,...) data attributes of the stores that the repository's tests do not pin are renamed everywhere
      (reserved_items, reserved_events, ready_items): the monitors may become INCONCLUSIVE, they must not report violations;
  T5  (--direct-events) the stores create their tokens with simpy.Event(env) instead of env.event();
  T3  a few well-known locals / private attributes of the node classes get unrelated names (item -> fi, pallet -> pl,
      item_in_process -> cur_item, ...), the renaming a maintainer would do by hand.
The repository's 70 tests must still pass on the rewritten tree; then every engine runs a reduced pass with all monitors on.
Any violation key that is not a status=known finding is a false alarm of the machinery (exit 1)."""
import ast, json, os, re, shutil, subprocess, sys, tempfile
HERE = os.path.dirname(os.path.dirname(os.path.abspath(__file__)))
sys.path.insert(0, os.path.join(HERE, "tools"))
from mutation_audit import ENGINES, load_known, is_known
PY = "/venv/bin/python"
HAND = {"item": "fi", "pallet": "pl", "item_to_push": "obj", "item_in_process": "cur_item", "pallet_in_process": "cur_pallet",
        "out_edge_events": "oee", "chosen_put_event": "cpe", "in_edge_events": "iee", "reservation_tokens": "rtoks",
        "worker_thread_req": "wreq", "req_token": "rq"}


DIRECT_EVENTS = False
ATTRS = {}     # T4 (option --attrs a=b,...): data attributes of the stores renamed everywhere, e.g. reserved_items=bound_items


def private_methods(trees):
    names = set()
    for t in trees.values():
        for n in ast.walk(t):
            if isinstance(n, (ast.FunctionDef, ast.AsyncFunctionDef)) and n.name.startswith("_") and not n.name.startswith("__"):
                names.add(n.name)
    return names


class Locals(ast.NodeVisitor):
    """names assigned inside one function body (not nested functions)"""
    def __init__(self):
        self.assigned, self.declared = set(), set()

    def visit_FunctionDef(self, n):
        return  # nested: handled separately

    visit_AsyncFunctionDef = visit_Lambda = visit_FunctionDef

    def visit_Name(self, n):
        if isinstance(n.ctx, (ast.Store, ast.Del)):
            self.assigned.add(n.id)

    def visit_Global(self, n):
        self.declared.update(n.names)

    visit_Nonlocal = visit_Global

    def visit_ListComp(self, n):
        return  # comprehension variables live in their own scope; leave them alone

    visit_SetComp = visit_DictComp = visit_GeneratorExp = visit_ListComp


class Rewriter(ast.NodeTransformer):
    def __init__(self, priv, hand_nodes):
        self.priv, self.hand = priv, hand_nodes
        self.stack = []

    def _fn(self, n):
        params = {a.arg for a in n.args.args + n.args.kwonlyargs + n.args.posonlyargs}
        if n.args.vararg:
            params.add(n.args.vararg.arg)
        if n.args.kwarg:
            params.add(n.args.kwarg.arg)
        lv = Locals()
        for b in n.body:
            lv.visit(b)
        ren = {x: x + "_rn" for x in lv.assigned - params - lv.declared}
        if self.hand:
            for k, v in HAND.items():
                if k in ren:
                    ren[k] = v
                elif k in params:
                    ren[k] = v          # parameters of node-internal methods are only passed positionally
        if n.name in self.priv:
            n.name = n.name + "_rn"
        if self.hand and n.name in HAND:
            n.name = HAND[n.name]
        for a in n.args.args + n.args.kwonlyargs + n.args.posonlyargs:
            if a.arg in ren:
                a.arg = ren[a.arg]
        self.stack.append(ren)
        n.body = [self.visit(b) for b in n.body]
        self.stack.pop()
        return n

    visit_FunctionDef = visit_AsyncFunctionDef = _fn

    def visit_Name(self, n):
        for ren in reversed(self.stack):
            if n.id in ren:
                n.id = ren[n.id]
                break
        return n

    def visit_Attribute(self, n):
        self.generic_visit(n)
        if n.attr in ATTRS:
            n.attr = ATTRS[n.attr]
        elif n.attr in self.priv:
            n.attr = n.attr + "_rn"
        elif self.hand and n.attr in HAND and isinstance(n.value, ast.Name) and n.value.id == "self":
            n.attr = HAND[n.attr]
        return n


def main():
    args = sys.argv[1:]
    if "--attrs" in args:
        i = args.index("--attrs")
        ATTRS.update(dict(a.split("=") for a in args[i + 1].split(",")))
        del args[i:i + 2]
    global DIRECT_EVENTS
    patch, rewrite = None, True
    if "--patch" in args:
        i = args.index("--patch")
        patch = os.path.abspath(args[i + 1])
        del args[i:i + 2]
    if "--no-rewrite" in args:
        rewrite = False
        args.remove("--no-rewrite")
    if "--direct-events" in args:
        DIRECT_EVENTS = True
        args.remove("--direct-events")
    scale = float(args[0]) if args else 0.25
    tmp = tempfile.mkdtemp(prefix="refprobe.")
    rc = 0
    try:
        shutil.copytree("/repo/src", os.path.join(tmp, "src"), ignore=shutil.ignore_patterns("*.egg-info", "__pycache__"))
        shutil.copytree("/repo/tests", os.path.join(tmp, "tests"), ignore=shutil.ignore_patterns("__pycache__"))
        if patch:
            r = subprocess.run(["patch", "-p1", "-s", "-d", tmp, "-i", patch], capture_output=True, text=True)
            if r.returncode != 0:
                print("patch does not apply:", r.stdout[-300:])
                return 2
        root = os.path.join(tmp, "src", "factorysimpy")
        files = [os.path.join(d, f) for d, _, fs in os.walk(root) for f in fs if f.endswith(".py")]
        trees = {p: ast.parse(open(p).read()) for p in files}
        priv = private_methods(trees)
        n_loc = 0
        for p, t in (trees.items() if rewrite else ()):
            rw = Rewriter(priv, hand_nodes=(os.sep + "nodes" + os.sep) in p)
            t2 = rw.visit(t)
            ast.fix_missing_locations(t2)
            open(p, "w").write(ast.unparse(t2))
        if DIRECT_EVENTS:
            # T5: the stores create their reservation tokens with simpy.Event(env) instead of env.event()
            for p in files:
                if os.sep + "base" + os.sep in p:
                    src = open(p).read()
                    if "self.env.event()" in src:
                        src = src.replace("self.env.event()", "simpy.Event(self.env)")
                        if "import simpy" not in src:
                            src = "import simpy\n" + src
                        open(p, "w").write(src)
        print(f"rewrote {len(files)} files; {len(priv)} private methods renamed", flush=True)
        env = dict(os.environ, PYTHONPATH=os.path.join(tmp, "src"), PYTHONHASHSEED="0", PYTHONDONTWRITEBYTECODE="1")
        t = subprocess.run([PY, "-m", "pytest", "-q", "-p", "no:cacheprovider", "--timeout=300", "--continue-on-collection-errors", "tests"],
                           cwd=tmp, env=env, capture_output=True, text=True)
        tail = t.stdout.strip().splitlines()[-1] if t.stdout.strip() else t.stderr[-300:]
        print("repository tests on the rewritten tree:", tail, flush=True)
        if not re.search(r"\b70 passed\b", tail) or "failed" in tail:
            print("the transformation itself broke the tree; nothing decided")
            return 2
        known = load_known()
        env = dict(os.environ, PYTHONPATH=HERE, VERIF_REPO=tmp, PYTHONHASHSEED="0", PYTHONDONTWRITEBYTECODE="1")
        procs = []
        for engine, params, n in ENGINES:
            if engine == "E7":
                params = dict(params, children=0)
            m = max(3, int(n * scale))
            procs.append((engine, params, m, subprocess.Popen([PY, "-m", "fsmon.worker", engine, json.dumps(params), "0", "0", str(m), "ALL"],
                                                             cwd=HERE, env=env, stdout=subprocess.PIPE, stderr=subprocess.PIPE, text=True)))
        for engine, params, m, p in procs:
            out, err = p.communicate(timeout=3600)
            try:
                r = json.loads(out.strip().splitlines()[-1])
            except Exception:
                print(f"{engine}: worker died: {err[-300:]}")
                rc = 1
                continue
            bad = {k: v for k, v in r["viol_count"].items() if not is_known(known, k)}
            print(f"{engine} {json.dumps(params)[:60]} cases={r['cases']} crashed={r['crashed']} unlisted={sum(bad.values())} "
                  f"withheld={r['counters'].get('verdicts_withheld_store_internals_unreadable', 0)}", flush=True)
            for k, v in sorted(bad.items(), key=lambda kv: -kv[1])[:8]:
                print("   FALSE ALARM", v, k)
            if bad:
                rc = 1
    finally:
        shutil.rmtree(tmp, ignore_errors=True)
    print("refactor probe:", "silent" if rc == 0 else "FALSE ALARMS")
    return rc


if __name__ == "__main__":
    sys.exit(main())
