#!/venv/bin/python
"""Every block of every quick plan, all monitors on (worker property ALL), on the unchanged tree: a violation key that is
not a known finding is a false alarm somewhere - even if the check that runs this block would filter it out because it belongs
to another property.  usage: tools/clean_all_keys.py [max cases per block]"""
import json, os, subprocess, sys
from concurrent.futures import ThreadPoolExecutor
HERE = os.path.dirname(os.path.dirname(os.path.abspath(__file__)))
sys.path.insert(0, HERE); sys.path.insert(0, os.path.join(HERE, "tools"))
from fsmon.plan import PLAN
from mutation_audit import load_known, is_known
cap = int(sys.argv[1]) if len(sys.argv) > 1 else 1500
blocks, seen = [], set()
for prop, tiers in PLAN.items():
    for ent in tiers["quick"]:
        key = (ent["engine"], json.dumps(ent.get("params", {}), sort_keys=True))
        if key in seen:
            continue
        seen.add(key)
        blocks.append((prop, ent["engine"], ent.get("params", {}), min(cap, ent["cases"])))
known = load_known()
env = dict(os.environ, PYTHONPATH=HERE, PYTHONHASHSEED="0")
def run(b):
    prop, engine, params, n = b
    p = subprocess.run(["/venv/bin/python", "-m", "fsmon.worker", engine, json.dumps(params), "5", "0", str(n), "ALL"], cwd=HERE, env=env,
                       capture_output=True, text=True, timeout=3000)
    r = json.loads(p.stdout.strip().splitlines()[-1])
    bad = {k: v for k, v in r["viol_count"].items() if not is_known(known, k)}
    return b, r["cases"], bad
rc = 0
with ThreadPoolExecutor(max_workers=16) as ex:
    for b, cases, bad in ex.map(run, blocks):
        print(b[0], b[1], json.dumps(b[2])[:70], "cases", cases, "unlisted", sum(bad.values()), flush=True)
        for k, v in sorted(bad.items(), key=lambda kv: -kv[1])[:6]:
            print("    ", v, k)
            rc = 1
print("clean tree, all keys:", "silent" if rc == 0 else "UNLISTED KEYS")
sys.exit(rc)
