#!/bin/sh
# usage: tools/seed_confirm.sh <dir with patch.diff demo.py> 
# Confirms in a scratch worktree of /repo (removed afterwards): patch applies, 70 tests still pass with it,
# demo passes on the clean tree and fails with the patch.
set -u
SEED=$(cd "$1" && pwd)
WT=$(mktemp -d /tmp/seedwt.XXXXXX)
rmdir "$WT"
git -C /repo worktree add -q --detach "$WT" HEAD || exit 3
cd "$WT" || exit 3
res=""
PYTHONPATH="$WT/src" timeout 300 /venv/bin/python "$SEED/demo.py" >/tmp/seed_demo_clean.log 2>&1; clean=$?
if git apply "$SEED/patch.diff"; then
  PYTHONPATH="$WT/src" /venv/bin/python -m pytest -q -p no:cacheprovider --timeout=900 --continue-on-collection-errors tests > /tmp/seed_tests.log 2>&1
  tests=$(tail -1 /tmp/seed_tests.log)
  PYTHONPATH="$WT/src" timeout 300 /venv/bin/python "$SEED/demo.py" >/tmp/seed_demo_mut.log 2>&1; mut=$?
else
  tests="PATCH DOES NOT APPLY"; mut=-1
fi
cd /
git -C /repo worktree remove --force "$WT"
echo "seed=$SEED demo_clean_rc=$clean demo_mutated_rc=$mut tests='$tests'"
case "$tests" in *"70 passed"*) ;; *) exit 1;; esac
[ "$clean" = 0 ] && [ "$mut" != 0 ] && [ "$mut" != -1 ] && exit 0
exit 1
