#!/venv/bin/python
"""Which lines of /repo/src do the monitor workloads execute?  (self-validation aid, not a registered check)
usage: tools/coverage_probe.py [scale]   -> mutation/coverage.json  {file: [executed line numbers]} and a summary of
functions of the anchored files that no workload ever enters."""
import ast, contextlib, json, os, sys
HERE = os.path.dirname(os.path.dirname(os.path.abspath(__file__)))
sys.path.insert(0, HERE)
os.environ.setdefault("PYTHONHASHSEED", "0")
from fsmon import REPO
from fsmon.worker import get_engine, case_seed, INDEXED
sys.path.insert(0, os.path.join(HERE, "tools"))
from mutation_audit import ENGINES

ROOT = os.path.join(REPO, "src", "factorysimpy")
seen = {}
TOOL = sys.monitoring.COVERAGE_ID
sys.monitoring.use_tool_id(TOOL, "fsmon-cov")


def on_line(code, line):
    fn = code.co_filename
    if fn.startswith(ROOT):
        seen.setdefault(fn, set()).add(line)
    return sys.monitoring.DISABLE   # each location only needs to be seen once


sys.monitoring.register_callback(TOOL, sys.monitoring.events.LINE, on_line)
sys.monitoring.set_events(TOOL, sys.monitoring.events.LINE)
scale = float(sys.argv[1]) if len(sys.argv) > 1 else 0.25
devnull = open(os.devnull, "w")
for engine, params, n in ENGINES:
    if engine == "E7":
        params = dict(params, children=0)
    fn = get_engine(engine)
    m = max(3, int(n * scale))
    for i in range(m):
        try:
            with contextlib.redirect_stdout(devnull):
                fn(case_seed(0, engine, i), params, index=i) if engine in INDEXED else fn(case_seed(0, engine, i), params)
        except Exception as e:
            pass
    print(engine, params, m, "lines so far", sum(len(v) for v in seen.values()), flush=True)
sys.monitoring.set_events(TOOL, 0)
out = {os.path.relpath(k, ROOT): sorted(v) for k, v in seen.items()}
os.makedirs(os.path.join(HERE, "mutation"), exist_ok=True)
json.dump(out, open(os.path.join(HERE, "mutation", "coverage.json"), "w"))
# functions never entered
report = []
for dirpath, _, files in os.walk(ROOT):
    for f in files:
        if not f.endswith(".py"):
            continue
        p = os.path.join(dirpath, f)
        rel = os.path.relpath(p, ROOT)
        tree = ast.parse(open(p).read())
        lines = set(out.get(rel, []))
        for node in ast.walk(tree):
            if isinstance(node, (ast.FunctionDef, ast.AsyncFunctionDef)):
                body_lines = {n.lineno for b in node.body for n in ast.walk(b) if hasattr(n, "lineno")}
                if body_lines and not (body_lines & lines):
                    report.append(f"{rel}:{node.lineno} {node.name}")
with open(os.path.join(HERE, "mutation", "never_entered.txt"), "w") as fo:
    fo.write("\n".join(sorted(report)) + "\n")
print(len(report), "functions never entered; see mutation/never_entered.txt")
