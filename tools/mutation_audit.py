#!/venv/bin/python
"""Mechanical mutation audit of the monitors (self-validation, not a registered check).

usage: tools/mutation_audit.py gen                      -> mutation/mutants.json (all candidate mutants)
       tools/mutation_audit.py run [--n N] [--seed S] [--jobs J] [--files a,b]   -> mutation/results.jsonl (appends)
       tools/mutation_audit.py report                   -> mutation/REPORT.md

Every mutant is one syntactic change of /repo/src (comparison boundary, +/- swap, and/or swap, integer constant
+1, negated if, dropped self.method() call statement, dropped augmented assignment, flipped boolean return).  For
each sampled mutant: scratch copy of src + tests outside /repo and /verif (removed afterwards), the repository's 70
tests must still pass (otherwise "killed-by-tests", not interesting), then one reduced-volume pass of every engine
with *all* monitors on (worker property ALL) against the scratch copy; violation keys that match a status=known
entry of known_findings.json are ignored.  A mutant with no unlisted key is "survived" and is triaged by hand
(equivalent / outside every property / blind spot) in mutation/TRIAGE.md."""
import ast, json, os, random, re, shutil, subprocess, sys, tempfile, time, hashlib
from concurrent.futures import ThreadPoolExecutor

HERE = os.path.dirname(os.path.dirname(os.path.abspath(__file__)))
SRC = "/repo/src/factorysimpy"
OUT = os.path.join(HERE, "mutation")
PY = "/venv/bin/python"
FILES = ["base/belt_store.py", "base/buffer_store.py", "base/fleet_store.py", "base/priority_req_store.py",
         "base/reservable_priority_req_filter_store.py", "base/reservable_priority_req_store.py", "base/reservable_req_store.py",
         "base/slotted_belt_store.py", "edges/buffer.py", "edges/continuous_conveyor.py", "edges/edge.py", "edges/fleet.py",
         "edges/slotted_conveyor.py", "nodes/combiner.py", "nodes/machine.py", "nodes/node.py", "nodes/sink.py", "nodes/source.py",
         "nodes/splitter.py", "helper/baseflowitem.py", "helper/pallet.py", "helper/item.py"]
CMP = {"<": "<=", "<=": "<", ">": ">=", ">=": ">", "==": "!=", "!=": "==", "is not": "is", "is": "is not"}
ALL_KINDS = ["rprs", "rrs", "filter", "filter_td", "buffer_fifo", "buffer_lifo", "fleet", "bufferstore_fifo", "bufferstore_lifo",
             "slotbelt", "belt_acc", "belt_nacc"]
BUF_KINDS = ["buffer_fifo", "buffer_lifo", "fleet"]
ENGINES = [  # (engine, params, cases)
    ("E1", {"kinds": ALL_KINDS}, 3000),
    ("E3", {"profile": "core"}, 800),
    ("E1", {"kinds": ALL_KINDS, "illformed": 0.08}, 1000),
    ("E1", {"kinds": ALL_KINDS, "profiles": ["hoarder", "full_store", "prio_storm", "cancel_storm", "burst"]}, 2000),
    ("E1", {"kinds": BUF_KINDS, "probe": 0.12}, 1000),
    ("E4", {}, 1500),
    ("E4", {"aligned": 1, "kind": "cont_nacc"}, 500),
    ("E5", {}, 1500),
    ("E3", {"profile": "core", "templates": ["pack", "packunpack", "splitline"]}, 300),
    ("E1p", {}, 3000),
    ("E2p", {}, 8736),
    ("E2", {"depth": 5, "nshards": 1}, 22),
    ("E8", {"table": "invalid"}, 38),
    ("E8", {"table": "matrix"}, 432),
    ("E7", {"min_T": 120}, 4),
    ("E3", {"profile": "core", "templates": ["syncfan", "loop"]}, 300),
    ("E4", {"mixed": 1, "kind": "cont_nacc"}, 400),
    ("E7", {"stores": 1}, 200),
]


class Finder(ast.NodeVisitor):
    def __init__(self, lines, rel):
        self.lines, self.rel, self.out, self.in_print = lines, rel, [], 0

    def seg(self, l1, c1, l2, c2):
        if l1 != l2:
            return None
        return self.lines[l1 - 1][c1:c2]

    def add(self, op, line, c1, c2, new, old):
        self.out.append({"file": self.rel, "op": op, "line": line, "c1": c1, "c2": c2, "old": old, "new": new})

    def visit_Call(self, node):
        isprint = isinstance(node.func, ast.Name) and node.func.id == "print"
        if isprint:
            return  # nothing inside a print is interesting
        self.generic_visit(node)

    def visit_JoinedStr(self, node):
        return

    def visit_Raise(self, node):
        return

    def visit_Compare(self, node):
        if len(node.ops) == 1:
            l, r = node.left, node.comparators[0]
            if l.end_lineno == r.lineno:
                txt = self.lines[l.end_lineno - 1][l.end_col_offset:r.col_offset]
                tok = txt.strip()
                if tok in CMP:
                    lead = len(txt) - len(txt.lstrip())
                    c1 = l.end_col_offset + lead
                    self.add("cmp", l.end_lineno, c1, c1 + len(tok), CMP[tok], tok)
        self.generic_visit(node)

    def visit_BinOp(self, node):
        if isinstance(node.op, (ast.Add, ast.Sub)):
            l, r = node.left, node.right
            strish = any(isinstance(x, (ast.JoinedStr,)) or (isinstance(x, ast.Constant) and isinstance(x.value, str)) for x in (l, r))
            if not strish and l.end_lineno == r.lineno:
                txt = self.lines[l.end_lineno - 1][l.end_col_offset:r.col_offset]
                tok = txt.strip()
                if tok in ("+", "-"):
                    lead = len(txt) - len(txt.lstrip())
                    c1 = l.end_col_offset + lead
                    self.add("arith", l.end_lineno, c1, c1 + 1, "-" if tok == "+" else "+", tok)
        self.generic_visit(node)

    def visit_BoolOp(self, node):
        a, b = node.values[0], node.values[1]
        if a.end_lineno == b.lineno:
            txt = self.lines[a.end_lineno - 1][a.end_col_offset:b.col_offset]
            tok = txt.strip()
            if tok in ("and", "or"):
                lead = len(txt) - len(txt.lstrip())
                c1 = a.end_col_offset + lead
                self.add("bool", a.end_lineno, c1, c1 + len(tok), "or" if tok == "and" else "and", tok)
        self.generic_visit(node)

    def visit_Constant(self, node):
        if type(node.value) is int and node.lineno == node.end_lineno and 0 <= node.value <= 3:
            old = self.lines[node.lineno - 1][node.col_offset:node.end_col_offset]
            if old == str(node.value):
                self.add("const", node.lineno, node.col_offset, node.end_col_offset, str(node.value + 1), old)

    def visit_If(self, node):
        t = node.test
        if t.lineno == t.end_lineno:
            old = self.lines[t.lineno - 1][t.col_offset:t.end_col_offset]
            self.add("negif", t.lineno, t.col_offset, t.end_col_offset, f"not ({old})", old)
        self.generic_visit(node)

    visit_While = visit_If

    def visit_Expr(self, node):
        v = node.value
        if isinstance(v, ast.Call) and isinstance(v.func, ast.Attribute) and node.lineno == node.end_lineno:
            base = v.func.value
            if not (isinstance(v.func, ast.Attribute) and v.func.attr in ("append",) and False):
                old = self.lines[node.lineno - 1][node.col_offset:node.end_col_offset]
                if not old.startswith("print") and "super()" not in old:
                    self.add("dropcall", node.lineno, node.col_offset, node.end_col_offset, "pass", old)
        self.generic_visit(node)

    def visit_AugAssign(self, node):
        if node.lineno == node.end_lineno:
            old = self.lines[node.lineno - 1][node.col_offset:node.end_col_offset]
            self.add("dropaug", node.lineno, node.col_offset, node.end_col_offset, "pass", old)
        self.generic_visit(node)

    def visit_Return(self, node):
        v = node.value
        if isinstance(v, ast.Constant) and isinstance(v.value, bool) and node.lineno == node.end_lineno:
            old = self.lines[v.lineno - 1][v.col_offset:v.end_col_offset]
            self.add("retflip", v.lineno, v.col_offset, v.end_col_offset, str(not v.value), old)
        elif v is not None:
            self.generic_visit(node)


def gen():
    os.makedirs(OUT, exist_ok=True)
    allm = []
    for rel in FILES:
        src = open(os.path.join(SRC, rel)).read()
        lines = src.split("\n")
        f = Finder(lines, rel)
        f.visit(ast.parse(src))
        for m in f.out:
            # sanity: the mutated file must still parse
            L = list(lines)
            L[m["line"] - 1] = L[m["line"] - 1][:m["c1"]] + m["new"] + L[m["line"] - 1][m["c2"]:]
            try:
                ast.parse("\n".join(L))
            except SyntaxError:
                continue
            m["text"] = lines[m["line"] - 1].strip()[:160]
            m["id"] = hashlib.sha256(f"{rel}:{m['line']}:{m['c1']}:{m['op']}:{m['new']}".encode()).hexdigest()[:10]
            allm.append(m)
    json.dump(allm, open(os.path.join(OUT, "mutants.json"), "w"), indent=0)
    from collections import Counter
    print(len(allm), Counter(m["op"] for m in allm), Counter(m["file"] for m in allm))


def load_known():
    return [k for k in json.load(open(os.path.join(HERE, "known_findings.json")))["findings"] if k.get("status") == "known"]


def is_known(known, key):
    p, check, mech = key.split("|", 2)
    for k in known:
        if k["property"] != p:
            continue
        m = k.get("match", {})
        if m.get("check") and m["check"] != check:
            continue
        if m.get("mechanism") and not re.search(m["mechanism"], mech):
            continue
        return True
    return False


def run_one(m, known, base_seed):
    tmp = tempfile.mkdtemp(prefix="mutaudit.")
    res = {"id": m["id"], "file": m["file"], "line": m["line"], "op": m["op"], "old": m["old"], "new": m["new"], "text": m["text"]}
    t0 = time.time()
    try:
        shutil.copytree("/repo/src", os.path.join(tmp, "src"), ignore=shutil.ignore_patterns("*.egg-info", "__pycache__"))
        shutil.copytree("/repo/tests", os.path.join(tmp, "tests"), ignore=shutil.ignore_patterns("__pycache__"))
        p = os.path.join(tmp, "src", "factorysimpy", m["file"])
        L = open(p).read().split("\n")
        line = L[m["line"] - 1]
        assert line[m["c1"]:m["c2"]] == m["old"], (line, m)
        L[m["line"] - 1] = line[:m["c1"]] + m["new"] + line[m["c2"]:]
        open(p, "w").write("\n".join(L))
        env = dict(os.environ, PYTHONPATH=os.path.join(tmp, "src"), PYTHONHASHSEED="0", PYTHONDONTWRITEBYTECODE="1")
        try:
            t = subprocess.run([PY, "-m", "pytest", "-q", "-x", "-p", "no:cacheprovider", "--timeout=120", "--continue-on-collection-errors", "tests"],
                               cwd=tmp, env=env, capture_output=True, text=True, timeout=600)
            tail = t.stdout.strip().splitlines()[-1] if t.stdout.strip() else ""
        except subprocess.TimeoutExpired:
            tail = "timeout"
        if not re.search(r"\b70 passed\b", tail) or "failed" in tail:
            res.update(status="killed-by-tests", tests=tail[:120], wall=round(time.time() - t0, 1))
            return res
        env = dict(os.environ, PYTHONPATH=HERE, VERIF_REPO=tmp, PYTHONHASHSEED="0", PYTHONDONTWRITEBYTECODE="1")
        keys, ran = {}, []
        for engine, params, n in ENGINES:
            try:
                w = subprocess.run([PY, "-m", "fsmon.worker", engine, json.dumps(params), str(base_seed), "0", str(n), "ALL"],
                                   cwd=HERE, env=env, capture_output=True, text=True, timeout=900)
                r = json.loads(w.stdout.strip().splitlines()[-1])
            except Exception as e:
                ran.append(f"{engine}:error:{type(e).__name__}")
                keys[f"AUDIT|engine_died|{engine}"] = 1
                break
            ran.append(engine)
            for k, v in r["viol_count"].items():
                if not is_known(known, k):
                    keys[k] = keys.get(k, 0) + v
            if r.get("cases", 0) and r.get("crashed", 0) > 0.25 * r["cases"]:
                keys[f"AUDIT|mass_crash|{engine}"] = r["crashed"]
            if keys:
                break
        res.update(status="caught" if keys else "survived", keys=dict(sorted(keys.items(), key=lambda kv: -kv[1])[:6]), engines=ran,
                   wall=round(time.time() - t0, 1))
        return res
    except Exception as e:
        res.update(status="audit-error", error=repr(e)[:300])
        return res
    finally:
        shutil.rmtree(tmp, ignore_errors=True)


def run(args):
    n, seed, jobs, files, ops, reached_only = 100, 0, 16, None, None, False
    while args:
        if args[0] == "--reached-only":
            reached_only = True
            args = args[1:]
            continue
        if args[0] == "--n": n = int(args[1])
        elif args[0] == "--seed": seed = int(args[1])
        elif args[0] == "--jobs": jobs = int(args[1])
        elif args[0] == "--files": files = args[1].split(",")
        elif args[0] == "--ops": ops = args[1].split(",")
        args = args[2:]
    allm = json.load(open(os.path.join(OUT, "mutants.json")))
    done = set()
    rp = os.path.join(OUT, "results.jsonl")
    if os.path.exists(rp):
        done = {json.loads(l)["id"] for l in open(rp) if l.strip()}
    cand = [m for m in allm if m["id"] not in done and (not files or any(f in m["file"] for f in files)) and (not ops or m["op"] in ops)]
    if reached_only:
        cov = {k: set(v) for k, v in json.load(open(os.path.join(OUT, "coverage.json"))).items()}
        cand = [m for m in cand if m["line"] in cov.get(m["file"], ())]
    random.Random(seed).shuffle(cand)
    cand = cand[:n]
    known = load_known()
    print(f"{len(cand)} mutants to audit, {len(done)} already done", flush=True)
    with ThreadPoolExecutor(max_workers=jobs) as ex, open(rp, "a") as out:
        for res in ex.map(lambda m: run_one(m, known, seed), cand):
            out.write(json.dumps(res) + "\n")
            out.flush()
            print(res["status"], res["file"], res["line"], res["op"], res.get("keys") or res.get("tests") or "", flush=True)


def report():
    from collections import Counter, defaultdict
    rows = [json.loads(l) for l in open(os.path.join(OUT, "results.jsonl")) if l.strip()]
    st = Counter(r["status"] for r in rows)
    byfile = defaultdict(Counter)
    for r in rows:
        byfile[r["file"]][r["status"]] += 1
    with open(os.path.join(OUT, "REPORT.md"), "w") as f:
        f.write("# Mutation audit of the monitors (tools/mutation_audit.py)\n\n")
        f.write(f"{len(rows)} sampled single-token mutants of /repo/src: " + ", ".join(f"{k}: {v}" for k, v in st.items()) + "\n\n")
        f.write("| file | caught | survived | killed by the 70 tests |\n|---|---|---|---|\n")
        for k in sorted(byfile):
            c = byfile[k]
            f.write(f"| {k} | {c['caught']} | {c['survived']} | {c['killed-by-tests']} |\n")
        cov = {}
        if os.path.exists(os.path.join(OUT, "coverage.json")):
            cov = {k: set(v) for k, v in json.load(open(os.path.join(OUT, "coverage.json"))).items()}
        f.write("\n## Survivors (triage in TRIAGE.md)\n\n'reached' = the mutated line is executed by the audit workloads on the unchanged tree (tools/coverage_probe.py).\n\n"
                "| id | file:line | reached | op | old -> new | source line |\n|---|---|---|---|---|---|\n")
        for r in sorted(rows, key=lambda r: (r["file"], r["line"])):
            if r["status"] == "survived":
                reached = "yes" if r["line"] in cov.get(r["file"], ()) else "no"
                f.write(f"| {r['id']} | {r['file']}:{r['line']} | {reached} | {r['op']} | `{r['old'][:40]}` -> `{r['new'][:40]}` | `{r['text'][:110].replace('|', '/')}` |\n")
    print(st)


if __name__ == "__main__":
    cmd = sys.argv[1] if len(sys.argv) > 1 else ""
    if cmd == "gen": gen()
    elif cmd == "run": run(sys.argv[2:])
    elif cmd == "report": report()
    else: print(__doc__)
