#!/bin/sh
# usage: tools/sweep.sh <tier> <seed>...   runs every check of MANIFEST.json for each seed; evidence goes to a scratch dir
cd "$(dirname "$0")/.." || exit 2
tier=$1; shift
tmp=$(mktemp -d /tmp/sweep.XXXXXX)
for seed in "$@"; do
  for p in $(python3 -c "import json;print(' '.join(c['property_id'] for c in json.load(open('MANIFEST.json'))['checks']))"); do
    out=$(VERIF_SEED=$seed VERIF_EVIDENCE_DIR=$tmp ./check $p $tier 2>&1); rc=$?
    line=$(echo "$out" | tail -1)
    if [ $rc -ne 0 ]; then echo "seed=$seed $p rc=$rc"; echo "$out" | grep -v KNOWN | head -5; else echo "seed=$seed ok $line"; fi
  done
done
rm -rf "$tmp"
