#!/usr/bin/env python3
"""Regenerates MANIFEST.json from fsmon/plan.py (which properties have a check) + static texts."""
import json, os, sys
sys.path.insert(0, os.path.dirname(os.path.abspath(__file__)))
from fsmon.plan import PLAN
from fsmon.manifest_text import TEXT, NOT_APPLICABLE

props = [json.loads(l) for l in open(os.path.join(os.path.dirname(os.path.abspath(__file__)), "properties.jsonl"))]
checks = []
na = []
for p in props:
    pid = p["id"]
    if pid in PLAN:
        t = TEXT[pid]
        checks.append({
            "property_id": pid,
            "quick_cmd": f"./check {pid} quick",
            "thorough_cmd": f"./check {pid} thorough",
            "evidence_file": f"evidence/{pid}.json",
            "replay_cmd_template": f"./check {pid} --replay {{path}}",
            "engine": t["engine"],
            "level_claimed": {"category": "exploration", "text": t["level"], "design_ref": t["design_ref"]},
            "level_note": t["note"],
            "technique": t["technique"],
        })
    else:
        na.append({"property_id": pid, "reason": NOT_APPLICABLE.get(pid, "check not built yet in this session; see DESIGN.md")})
m = {
    "version": 1,
    "setup_cmd": "/venv/bin/python -m fsmon.selftest",
    "hooks": {
        "guard": "FACTORYSIMPY_VERIF",
        "enable": "no source hooks: the harness subclasses simpy.Environment (MonEnv) and wraps the store classes at import time; FACTORYSIMPY_VERIF is not read by /repo",
        "baseline_off_cmd": "cd /repo && /venv/bin/python -m pytest -ra -q -p no:cacheprovider --timeout=900 --continue-on-collection-errors",
        "source_commits": [],
        "add_only": True,
    },
    "engines": [
        {"name": "E1", "path": "fsmon/workloads/e1.py", "serves_properties": ["C01", "C02", "C04", "C05", "C06", "C07", "C11", "C18"],
         "kind_free_text": "randomised hostile client histories on one store, monitored by ShadowStore"},
        {"name": "E1p", "path": "fsmon/workloads/e1p.py", "serves_properties": ["C05"], "kind_free_text": "client histories on PriorityReqStore (request order oracle by polling)"},
        {"name": "E2p", "path": "fsmon/workloads/e2p.py", "serves_properties": ["C05"], "kind_free_text": "exhaustive priority / arrival-order / cancellation sweep"},
        {"name": "E2", "path": "fsmon/workloads/e2.py", "serves_properties": ["C01", "C02", "C04", "C05", "C06", "C07"], "kind_free_text": "small-scope exhaustive operation sequences on the real stores (stateless DFS by re-execution)"},
        {"name": "E3", "path": "fsmon/workloads/e3.py", "serves_properties": ["C03", "C08", "C09", "C10", "C11", "C15", "C16", "C17", "C18"], "kind_free_text": "random factories under the ledger oracles"},
        {"name": "E4", "path": "fsmon/workloads/e4.py", "serves_properties": ["C12", "C13"], "kind_free_text": "scripted conveyor producer/consumer"},
        {"name": "E7", "path": "fsmon/workloads/e7.py", "serves_properties": ["C19"], "kind_free_text": "differential reproducibility driver"},
        {"name": "E8", "path": "fsmon/workloads/e8.py", "serves_properties": ["C20"], "kind_free_text": "exhaustive configuration matrix and invalid-configuration table"},
        {"name": "E5", "path": "fsmon/workloads/e5.py", "serves_properties": ["C14"], "kind_free_text": "scripted fleet loading / consumption"},
    ],
    "checks": checks,
    "not_applicable": na,
    "notes": "Runtime monitoring only. All checks run the real classes from /repo/src under MonEnv + ShadowStore/ledger oracles; see DESIGN.md.",
}
json.dump(m, open(os.path.join(os.path.dirname(os.path.abspath(__file__)), "MANIFEST.json"), "w"), indent=1)
print("checks:", [c["property_id"] for c in checks], "not_applicable:", [n["property_id"] for n in na])
